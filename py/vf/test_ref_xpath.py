"""Self-test of vf.model and vf.ref_xpath.

    cd /verif/py && python3-vt -m vf.test_ref_xpath      (exit 0 = all passed)

Tables of worked examples taken from the XPath 1.0 Recommendation (sections 2-4),
hand-derived cases for every axis / function / comparison on small documents,
lexer disambiguation, number formatting, XSLT patterns, and metamorphic checks.
Expected values were derived by hand from the Recommendation text, never by
running an implementation.
"""
import math
import random
import sys

from . import model
from . import ref_xpath as rx
from .ref_xpath import (Context, XPathDynamicError, XPathStaticError,
                        XPathSyntaxError, evaluate, parse, parse_pattern)

NaN = float('nan')
INF = float('inf')
FAILS = []
COUNT = [0]


def fail(msg):
    FAILS.append(msg)
    if len(FAILS) <= 60:
        print('FAIL: ' + msg)


def same_number(a, b):
    if a != a or b != b:
        return a != a and b != b
    if a == 0 and b == 0:
        return math.copysign(1, a) == math.copysign(1, b)
    return a == b


def keys(v):
    return [n.key for n in v]


def check_value(label, got, exp):
    """exp: bool | float/int | str | list of keys (document order)"""
    COUNT[0] += 1
    if isinstance(exp, bool):
        ok = isinstance(got, bool) and got == exp
    elif isinstance(exp, (int, float)):
        ok = isinstance(got, float) and same_number(got, float(exp))
    elif isinstance(exp, str):
        ok = isinstance(got, str) and got == exp
    else:
        ok = isinstance(got, list) and keys(got) == list(exp)
        if isinstance(got, list):
            got = keys(got)
    if not ok:
        fail('%s: expected %r, got %r' % (label, exp, got))


NS = {'p': 'urn:p', 'q': 'urn:q', 'd': 'urn:d',
      'set': rx.NS_SETS, 'math': rx.NS_MATH, 'str': rx.NS_STR,
      'exsl': rx.NS_COMMON, 'xalan': rx.NS_XALAN}


def ev(expr, node, pos=1, size=1, variables=None):
    ctx = Context(node, pos, size, variables or {}, NS, rx.extension_functions())
    return evaluate(parse(expr), ctx)


def table(doc, ctxkey, rows, variables=None, pos=1, size=1):
    node = doc.by_key(ctxkey)
    assert node is not None, ctxkey
    for expr, exp in rows:
        try:
            got = ev(expr, node, pos, size, variables)
        except Exception as e:         # noqa
            COUNT[0] += 1
            fail('%s @%s: raised %s: %s' % (expr, ctxkey, type(e).__name__, e))
            continue
        check_value('%s @%s' % (expr, ctxkey), got, exp)


def expect_error(expr, exc, node=None, variables=None):
    COUNT[0] += 1
    try:
        if node is None:
            parse(expr)
        else:
            ev(expr, node, variables=variables)
    except exc:
        return
    except Exception as e:             # noqa
        fail('%r: expected %s, raised %s: %s' % (expr, exc.__name__, type(e).__name__, e))
        return
    fail('%r: expected %s, nothing raised' % (expr, exc.__name__))


# ---------------------------------------------------------------------------
# the main test document
#
#  /            root
#  /0           <!--c0-->
#  /1           <doc xmlns:p="urn:p" id="D" xml:lang="en">
#  /1/0           <a id="a1" n="1">
#  /1/0/0           "t1"
#  /1/0/1           <b>1</b>            text /1/0/1/0
#  /1/0/2           <b>2</b>            text /1/0/2/0
#  /1/0/3           <!--c1-->
#  /1/0/4           <b>3</b>            text /1/0/4/0
#  /1/1           <?pi data?>
#  /1/2           <a id="a2" n="2" p:m="x">
#  /1/2/0           <p:b xml:lang="en-GB">4</p:b>     text /1/2/0/0
#  /1/2/1           <c xmlns="urn:d"><e/></c>          e = /1/2/1/0
#  /1/3           "tail"
#  /1/4           <a id="a3" n="10"/>
#  /2           <?end?>
# ---------------------------------------------------------------------------
DOC1 = ('<!DOCTYPE doc [<!ATTLIST a id ID #IMPLIED><!ATTLIST doc id ID #IMPLIED>]>'
        '<!--c0--><doc xmlns:p="urn:p" id="D" xml:lang="en">'
        '<a id="a1" n="1">t1<b>1</b><b>2</b><!--c1--><b>3</b></a>'
        '<?pi data?>'
        '<a id="a2" n="2" p:m="x"><p:b xml:lang="en-GB">4</p:b><c xmlns="urn:d"><e/></c></a>'
        'tail<a id="a3" n="10"/></doc><?end?>')


def test_model():
    d = model.parse_document(DOC1)
    allk = [n.key for n in d.nodes(True, True)]
    exp = ['/', '/0', '/1', '/1/ns:xml', '/1/ns:p', '/1/@{}id',
           '/1/@{http://www.w3.org/XML/1998/namespace}lang',
           '/1/0', '/1/0/ns:xml', '/1/0/ns:p', '/1/0/@{}id', '/1/0/@{}n', '/1/0/0',
           '/1/0/1', '/1/0/1/ns:xml', '/1/0/1/ns:p', '/1/0/1/0',
           '/1/0/2', '/1/0/2/ns:xml', '/1/0/2/ns:p', '/1/0/2/0', '/1/0/3',
           '/1/0/4', '/1/0/4/ns:xml', '/1/0/4/ns:p', '/1/0/4/0', '/1/1',
           '/1/2', '/1/2/ns:xml', '/1/2/ns:p', '/1/2/@{}id', '/1/2/@{}n', '/1/2/@{urn:p}m',
           '/1/2/0', '/1/2/0/ns:xml', '/1/2/0/ns:p',
           '/1/2/0/@{http://www.w3.org/XML/1998/namespace}lang', '/1/2/0/0',
           '/1/2/1', '/1/2/1/ns:xml', '/1/2/1/ns:p', '/1/2/1/ns:',
           '/1/2/1/0', '/1/2/1/0/ns:xml', '/1/2/1/0/ns:p', '/1/2/1/0/ns:',
           '/1/3', '/1/4', '/1/4/ns:xml', '/1/4/ns:p', '/1/4/@{}id', '/1/4/@{}n', '/2']
    COUNT[0] += 1
    if allk != exp:
        fail('model: document order/key list differs:\n %r\n %r' % (allk, exp))
    COUNT[0] += 1
    if [n.order for n in d.nodes(True, True)] != list(range(len(exp))):
        fail('model: order numbers are not 0..n-1 in document order')
    for k in exp:
        COUNT[0] += 1
        if d.by_key(k) is None or d.by_key(k).key != k:
            fail('model: by_key(%r)' % k)
    checks = [
        (d.root.string_value(), 't1123' + '4' + 'tail'),
        (d.by_key('/1/0').string_value(), 't1123'),
        (d.by_key('/1/1').value, 'data'), (d.by_key('/1/1').local, 'pi'),
        (d.by_key('/2').value, ''),
        (d.by_key('/1/2/0').uri, 'urn:p'), (d.by_key('/1/2/0').qname, 'p:b'),
        (d.by_key('/1/2/0').local, 'b'), (d.by_key('/1/2/0').prefix, 'p'),
        (d.by_key('/1/2/1').uri, 'urn:d'), (d.by_key('/1/2/1/0').uri, 'urn:d'),
        (d.by_key('/1/2/@{urn:p}m').qname, 'p:m'), (d.by_key('/1/2/@{}n').uri, ''),
        (d.by_key('/1/2/1/ns:').value, 'urn:d'), (d.by_key('/1/2/1/ns:').local, ''),
        (d.by_key('/1/ns:xml').value, model.XML_NS),
        (sorted(d.ids), ['D', 'a1', 'a2', 'a3']), (d.ids['a2'].key, '/1/2'),
        (d.by_key('/1/2/1').nsdecls, (('', 'urn:d'),)),
        (d.by_key('/1/ns:p').parent.key, '/1'), (d.by_key('/1/@{}id').parent.key, '/1'),
    ]
    for got, e in checks:
        COUNT[0] += 1
        if got != e:
            fail('model: %r != %r' % (got, e))
    # text merging, CDATA, references, attribute normalisation and defaults,
    # xmlns="" undeclaration, first-ID-wins, whitespace-only text kept
    d2 = model.parse_document(
        b'<?xml version="1.0" encoding="ISO-8859-1"?>'
        b'<!DOCTYPE r [<!ATTLIST e k ID #IMPLIED dv CDATA "dflt" nt NMTOKENS #IMPLIED><!ENTITY en "E-N">]>'
        b'<r xmlns="urn:d"> <e k=" i1 " nt="  a   b " c="x&#10;y\nz">a<![CDATA[<&]]>&en;&#x1F600;\xe9</e>'
        b'<e xmlns="" k="i1"><f/></e>\r\n</r>')
    e1, e2 = d2.by_key('/0/1'), d2.by_key('/0/2')
    checks = [
        ([c.key for c in d2.by_key('/0').children], ['/0/0', '/0/1', '/0/2', '/0/3']),
        (d2.by_key('/0/0').value, ' '), (d2.by_key('/0/3').value, '\n'),
        (e1.children[0].value, 'a<&E-N\U0001F600\xe9'), (len(e1.children), 1),
        ([(a.qname, a.value) for a in e1.attributes],
         [('k', 'i1'), ('nt', 'a b'), ('c', 'x\ny z'), ('dv', 'dflt')]),
        ([(a.qname, a.value) for a in e2.attributes], [('k', 'i1'), ('dv', 'dflt')]),
        (d2.ids['i1'].key, '/0/1'), (e2.uri, ''), (e1.uri, 'urn:d'),
        ([n.local for n in e2.namespaces], ['xml']), (d2.by_key('/0/2/0').uri, ''),
        ([n.local for n in e1.namespaces], ['xml', '']),
    ]
    for got, e in checks:
        COUNT[0] += 1
        if got != e:
            fail('model2: %r != %r' % (got, e))
    for bad in ['<a', '<a></b>', '<a:b/>', '<a xmlns:p=""/>', '<a x="1" x="2"/>', '',
                '<a xmlns:p="u" xmlns:q="u" p:x="1" q:x="2"/>', '<a><?x:y?></a>', '<a>&u;</a>',
                '<a/><b/>', '<a xmlns:xmlns="u"/>', '<a xmlns:xml="u"/>', '<xmlns:a/>',
                '<a xmlns:p="http://www.w3.org/XML/1998/namespace"/>', 'x', '<a>\x01</a>']:
        COUNT[0] += 1
        try:
            model.parse_document(bad)
            fail('model: accepted ill-formed %r' % bad)
        except ValueError:
            pass
    # two documents: distinct docnum, cross-document order
    d3 = model.parse_document('<x/>')
    COUNT[0] += 1
    if not (d.docnum < d2.docnum < d3.docnum):
        fail('model: docnum not increasing')
    return d


XML = model.XML_NS
ALL_EL = ['/1', '/1/0', '/1/0/1', '/1/0/2', '/1/0/4', '/1/2', '/1/2/0', '/1/2/1', '/1/2/1/0', '/1/4']


def test_axes(d):
    # ---- context: second <b> of a1 --------------------------------------
    table(d, '/1/0/2', [
        ('child::node()', ['/1/0/2/0']), ('node()', ['/1/0/2/0']), ('*', []), ('text()', ['/1/0/2/0']),
        ('parent::*', ['/1/0']), ('..', ['/1/0']), ('parent::b', []), ('parent::a', ['/1/0']),
        ('ancestor::*', ['/1', '/1/0']), ('ancestor::*[1]', ['/1/0']), ('ancestor::*[2]', ['/1']),
        ('ancestor::node()[last()]', ['/']), ('ancestor::node()[1]', ['/1/0']),
        ('ancestor-or-self::*[1]', ['/1/0/2']), ('ancestor-or-self::node()[2]', ['/1/0']),
        ('ancestor-or-self::node()', ['/', '/1', '/1/0', '/1/0/2']),
        ('ancestor-or-self::node()[position()>1][1]', ['/1/0']),
        ('(ancestor-or-self::node())[1]', ['/']), ('(ancestor::*)[1]', ['/1']),
        ('following-sibling::node()', ['/1/0/3', '/1/0/4']), ('following-sibling::*[1]', ['/1/0/4']),
        ('following-sibling::node()[1]', ['/1/0/3']), ('following-sibling::node()[last()]', ['/1/0/4']),
        ('following-sibling::b', ['/1/0/4']), ('following-sibling::comment()', ['/1/0/3']),
        ('preceding-sibling::node()', ['/1/0/0', '/1/0/1']), ('preceding-sibling::node()[1]', ['/1/0/1']),
        ('preceding-sibling::node()[2]', ['/1/0/0']), ('preceding-sibling::*[1]', ['/1/0/1']),
        ('preceding-sibling::node()[last()]', ['/1/0/0']), ('preceding-sibling::text()', ['/1/0/0']),
        ('(preceding-sibling::node())[1]', ['/1/0/0']), ('(preceding-sibling::node())[last()]', ['/1/0/1']),
        ('following::node()', ['/1/0/3', '/1/0/4', '/1/0/4/0', '/1/1', '/1/2', '/1/2/0', '/1/2/0/0',
                               '/1/2/1', '/1/2/1/0', '/1/3', '/1/4', '/2']),
        ('following::*[1]', ['/1/0/4']), ('following::*[2]', ['/1/2']), ('following::node()[last()]', ['/2']),
        ('following::text()[2]', ['/1/2/0/0']), ('following::a', ['/1/2', '/1/4']),
        ('following::processing-instruction()', ['/1/1', '/2']), ('following::comment()', ['/1/0/3']),
        ('following::b', ['/1/0/4']), ('following::p:b', ['/1/2/0']), ('following::d:*', ['/1/2/1', '/1/2/1/0']),
        ('preceding::node()', ['/0', '/1/0/0', '/1/0/1', '/1/0/1/0']),
        ('preceding::node()[1]', ['/1/0/1/0']), ('preceding::node()[2]', ['/1/0/1']),
        ('preceding::node()[3]', ['/1/0/0']), ('preceding::node()[4]', ['/0']), ('preceding::node()[5]', []),
        ('preceding::*[1]', ['/1/0/1']), ('preceding::node()[last()]', ['/0']), ('preceding::comment()', ['/0']),
        ('(preceding::node())[1]', ['/0']), ('(preceding::node())[last()]', ['/1/0/1/0']),
        ('preceding::node()[position()<3]', ['/1/0/1', '/1/0/1/0']),
        ('descendant::node()', ['/1/0/2/0']), ('descendant-or-self::node()', ['/1/0/2', '/1/0/2/0']),
        ('descendant-or-self::*', ['/1/0/2']), ('descendant::*', []),
        ('self::b', ['/1/0/2']), ('self::a', []), ('self::*', ['/1/0/2']), ('self::text()', []),
        ('self::node()', ['/1/0/2']), ('.', ['/1/0/2']), ('self::p:b', []),
        ('attribute::*', []), ('@*', []), ('namespace::*', ['/1/0/2/ns:xml', '/1/0/2/ns:p']),
        ('namespace::p', ['/1/0/2/ns:p']), ('namespace::xml', ['/1/0/2/ns:xml']), ('namespace::q', []),
        ('namespace::node()', ['/1/0/2/ns:xml', '/1/0/2/ns:p']), ('namespace::text()', []),
        ('namespace::p:p', []), ('count(namespace::*)', 2), ('string(namespace::p)', 'urn:p'),
        ('name(namespace::p)', 'p'), ('namespace::*/..', ['/1/0/2']), ('namespace::*/parent::b', ['/1/0/2']),
        ('../b', ['/1/0/1', '/1/0/2', '/1/0/4']), ('../b[2]', ['/1/0/2']), ('../b[position()=last()]', ['/1/0/4']),
        ('../b[. > 1]', ['/1/0/2', '/1/0/4']), ('../b[. > 1][1]', ['/1/0/2']), ('../b[1][. > 1]', []),
        ('../node()[4]', ['/1/0/3']), ('../text()', ['/1/0/0']), ('../comment()', ['/1/0/3']),
        ('../*[last()]', ['/1/0/4']), ('../*[last()-1]', ['/1/0/2']), ('../*[1.5]', []), ('../*[0]', []),
        ('../*[0 div 0]', []), ('../*[1 div 0]', []), ('../*[2.0]', ['/1/0/2']), ('../*[-1]', []),
        ('../*[position()]', ['/1/0/1', '/1/0/2', '/1/0/4']), ('../*["x"]', ['/1/0/1', '/1/0/2', '/1/0/4']),
        ('../*[""]', []), ('../*[/..]', []), ('../*[/]', ['/1/0/1', '/1/0/2', '/1/0/4']),
        ('../*[true()]', ['/1/0/1', '/1/0/2', '/1/0/4']), ('../*[false()]', []),
        ('../*[last()][1]', ['/1/0/4']), ('../*[position() mod 2 = 1]', ['/1/0/1', '/1/0/4']),
        ('../*[position() mod 2 = 1][2]', ['/1/0/4']),
        ('position()', 1), ('last()', 1),
    ])
    # ---- context: a2 ------------------------------------------------------
    table(d, '/1/2', [
        ('@*', ['/1/2/@{}id', '/1/2/@{}n', '/1/2/@{urn:p}m']), ('@p:m', ['/1/2/@{urn:p}m']),
        ('@p:*', ['/1/2/@{urn:p}m']), ('@m', []), ('@n', ['/1/2/@{}n']), ('attribute::node()', ['/1/2/@{}id', '/1/2/@{}n', '/1/2/@{urn:p}m']),
        ('attribute::text()', []), ('@*[2]', ['/1/2/@{}n']), ('count(@*)', 3), ('@*[last()]', ['/1/2/@{urn:p}m']),
        ('@d:m', []), ('@xml:lang', []), ('@*[. = 2]', ['/1/2/@{}n']), ('@*[name() = "p:m"]', ['/1/2/@{urn:p}m']),
        ('child::*', ['/1/2/0', '/1/2/1']), ('child::b', []), ('b', []), ('p:b', ['/1/2/0']), ('p:*', ['/1/2/0']),
        ('d:c', ['/1/2/1']), ('c', []), ('d:*', ['/1/2/1']), ('descendant::d:e', ['/1/2/1/0']), ('descendant::e', []),
        ('descendant::*', ['/1/2/0', '/1/2/1', '/1/2/1/0']), ('descendant::*[2]', ['/1/2/1']),
        ('descendant::node()[last()]', ['/1/2/1/0']), ('*[1]', ['/1/2/0']), ('*[2]/*', ['/1/2/1/0']),
        ('preceding-sibling::node()', ['/1/0', '/1/1']), ('preceding-sibling::node()[1]', ['/1/1']),
        ('preceding-sibling::a[1]', ['/1/0']), ('preceding-sibling::processing-instruction("pi")', ['/1/1']),
        ('preceding-sibling::processing-instruction("pie")', []),
        ('following-sibling::node()', ['/1/3', '/1/4']), ('following-sibling::a', ['/1/4']),
        ('following-sibling::text()', ['/1/3']), ('following-sibling::node()[2]', ['/1/4']),
        ('preceding::*', ['/1/0', '/1/0/1', '/1/0/2', '/1/0/4']), ('preceding::*[1]', ['/1/0/4']),
        ('preceding::*[last()]', ['/1/0']), ('preceding::b[2]', ['/1/0/2']), ('preceding::node()[1]', ['/1/1']),
        ('preceding::a/b[1]', ['/1/0/1']), ('count(preceding::node())', 11),
        ('following::node()', ['/1/3', '/1/4', '/2']), ('following::*', ['/1/4']),
        ('ancestor::*', ['/1']), ('ancestor::node()', ['/', '/1']), ('ancestor-or-self::a', ['/1/2']),
        ('namespace::*', ['/1/2/ns:xml', '/1/2/ns:p']),
        ('*/namespace::*', ['/1/2/0/ns:xml', '/1/2/0/ns:p', '/1/2/1/ns:xml', '/1/2/1/ns:p', '/1/2/1/ns:']),
        ('d:c/namespace::*[not(name())]', ['/1/2/1/ns:']), ('string(d:c/namespace::*[not(name())])', 'urn:d'),
        ('count(.//namespace::*)', 10), ('count(.//@*)', 4),
    ])
    # ---- context: attribute n of a2 --------------------------------------
    table(d, '/1/2/@{}n', [
        ('parent::*', ['/1/2']), ('..', ['/1/2']), ('ancestor::*', ['/1', '/1/2']),
        ('ancestor-or-self::node()', ['/', '/1', '/1/2', '/1/2/@{}n']),
        ('ancestor-or-self::node()[1]', ['/1/2/@{}n']), ('ancestor-or-self::*[1]', ['/1/2']),
        ('ancestor::*[1]', ['/1/2']), ('self::node()', ['/1/2/@{}n']), ('self::*', []), ('self::n', []),
        ('.', ['/1/2/@{}n']), ('child::node()', []), ('descendant-or-self::node()', ['/1/2/@{}n']),
        ('descendant::node()', []), ('following-sibling::node()', []), ('preceding-sibling::node()', []),
        ('following::node()', ['/1/2/0', '/1/2/0/0', '/1/2/1', '/1/2/1/0', '/1/3', '/1/4', '/2']),
        ('following::*[1]', ['/1/2/0']), ('following::text()[1]', ['/1/2/0/0']),
        ('preceding::node()[1]', ['/1/1']), ('preceding::*[1]', ['/1/0/4']), ('count(preceding::node())', 11),
        ('preceding::node()[last()]', ['/0']),
        ('attribute::*', []), ('namespace::*', []), ('string(.)', '2'), ('string()', '2'), ('name()', 'n'),
        ('local-name()', 'n'), ('namespace-uri()', ''), ('../@*[. = 2]', ['/1/2/@{}n']),
        ('../@p:m/..', ['/1/2']), ('name(../@p:m)', 'p:m'), ('namespace-uri(../@p:m)', 'urn:p'),
        ('local-name(../@p:m)', 'm'), ('. = 2', True), ('. + 1', 3), ('lang("en")', True),
        ('count(. | ../@n)', 1), ('count(. | ../@id)', 2), ('//a[@n = current-is-not-core]', None),
    ][:-1])
    # ---- context: the default-namespace node of <c> ----------------------
    table(d, '/1/2/1/ns:', [
        ('parent::*', ['/1/2/1']), ('..', ['/1/2/1']), ('name()', ''), ('string()', 'urn:d'),
        ('local-name()', ''), ('namespace-uri()', ''), ('self::node()', ['/1/2/1/ns:']), ('self::*', []),
        ('following::node()', ['/1/2/1/0', '/1/3', '/1/4', '/2']), ('preceding::*[1]', ['/1/2/0']),
        ('ancestor::*[1]', ['/1/2/1']), ('ancestor-or-self::node()[1]', ['/1/2/1/ns:']),
        ('namespace::*', []), ('attribute::*', []), ('child::node()', []), ('descendant-or-self::node()', ['/1/2/1/ns:']),
        ('following-sibling::node()', []), ('preceding-sibling::node()', []),
        ('name(../namespace::p)', 'p'), ('string(../namespace::p)', 'urn:p'), ('lang("en")', True),
        ('count(../namespace::* | .)', 3), ('. = "urn:d"', True), ('string-length()', 5),
    ])
    # ---- context: root ---------------------------------------------------
    table(d, '/', [
        ('child::node()', ['/0', '/1', '/2']), ('*', ['/1']), ('parent::node()', []), ('..', []),
        ('ancestor-or-self::node()', ['/']), ('ancestor::node()', []), ('following::node()', []),
        ('preceding::node()', []), ('following-sibling::node()', []), ('self::node()', ['/']), ('self::*', []),
        ('descendant::a', ['/1/0', '/1/2', '/1/4']), ('//b', ['/1/0/1', '/1/0/2', '/1/0/4']),
        ('//b[1]', ['/1/0/1']), ('//b[last()]', ['/1/0/4']), ('(//b)[2]', ['/1/0/2']),
        ('//a[@n>1]', ['/1/2', '/1/4']), ('//a[@n>1][1]', ['/1/2']), ('(//a[@n>1])[1]', ['/1/2']),
        ('(//a[@n>1])[last()]', ['/1/4']), ('//a[2]', ['/1/2']), ('//a[position()=2][@n=2]', ['/1/2']),
        ('//a[@n=2][position()=2]', []), ('//a[@n=2][position()=1]', ['/1/2']),
        ('count(//node())', 20), ('count(//@*)', 10), ('count(//namespace::*)', 22), ('count(//*)', 10),
        ('count(//text())', 6), ('count(/descendant-or-self::node())', 21),
        ('//*[1]', ['/1', '/1/0', '/1/0/1', '/1/2/0', '/1/2/1/0']), ('/descendant::*[1]', ['/1']),
        ('/descendant::b[2]', ['/1/0/2']), ('/descendant-or-self::node()/child::b[2]', ['/1/0/2']),
        ('id("a2")', ['/1/2']), ('id("a3 a1")', ['/1/0', '/1/4']), ('id(" a3\t\n a1 \r")', ['/1/0', '/1/4']),
        ('id("zz")', []), ('id("")', []), ('id(//a/@id)', ['/1/0', '/1/2', '/1/4']), ('id("D")/a[3]', ['/1/4']),
        ('id("a2 a2")', ['/1/2']), ('id(//a/@n)', []), ('id(2)', []), ('id("a1")/b[2]', ['/1/0/2']),
        ('id(id("a2")/@id)', ['/1/2']), ('id("a3 a1")[1]', ['/1/0']), ('id("a3 a1")[last()]', ['/1/4']),
        ('//text()[. > 2]', ['/1/0/4/0', '/1/2/0/0']), ('//processing-instruction("pi")', ['/1/1']),
        ('//processing-instruction()', ['/1/1', '/2']), ('//comment()', ['/0', '/1/0/3']),
        ('processing-instruction()', ['/2']), ('comment()', ['/0']), ('text()', []),
        ('/doc/a[last()]', ['/1/4']), ('/doc/a[last()-1]/@id', ['/1/2/@{}id']), ('/doc/a/@n', ['/1/0/@{}n', '/1/2/@{}n', '/1/4/@{}n']),
        ('//*[lang("en")]', ALL_EL), ('//*[lang("en-gb")]', ['/1/2/0']), ('//*[lang("EN-GB")]', ['/1/2/0']),
        ('//*[lang("e")]', []), ('//*[lang("en-")]', []), ('lang("en")', False), ('//*[lang("fr")]', []),
        ('/', ['/']), ('/ | /doc', ['/', '/1']), ('/doc | /', ['/', '/1']), ('//a | //b | //a', ['/1/0', '/1/0/1', '/1/0/2', '/1/0/4', '/1/2', '/1/4']),
        ('(//b | //a)[1]', ['/1/0']), ('(//b | //a)[last()]', ['/1/4']), ('//a/b | //a/@n[. > 1]', ['/1/0/1', '/1/0/2', '/1/0/4', '/1/2/@{}n', '/1/4/@{}n']),
        ('//@n/..', ['/1/0', '/1/2', '/1/4']), ('//@n[. = 10]/parent::a/@id', ['/1/4/@{}id']),
        ('//namespace::*[name()=""]/..', ['/1/2/1', '/1/2/1/0']), ('//d:e/ancestor::*', ['/1', '/1/2', '/1/2/1']),
        ('//d:e/ancestor::*[1]', ['/1/2/1']), ('//d:e/ancestor::*[last()]', ['/1']),
        ('//b/preceding-sibling::*[1]', ['/1/0/1', '/1/0/2']), ('//b/following-sibling::*[1]', ['/1/0/2', '/1/0/4']),
        ('//b/following::*[1]', ['/1/0/2', '/1/0/4', '/1/2']), ('//b/preceding::*[1]', ['/1/0/1', '/1/0/2']),
        ('//a/preceding::*[1]', ['/1/0/4', '/1/2/1/0']), ('(//a/preceding::*)[1]', ['/1/0']),
        ('/doc/node()[position() > 3]', ['/1/3', '/1/4']), ('/doc/node()[position() > 3][1]', ['/1/3']),
        ('/doc/a[b]', ['/1/0']), ('/doc/a[not(b)]', ['/1/2', '/1/4']), ('/doc/a[b = 2]', ['/1/0']),
        ('/doc/a[b != 2]', ['/1/0']), ('/doc/a[not(b = 2)]', ['/1/2', '/1/4']), ('/doc/a[not(b != 2)]', ['/1/2', '/1/4']),
        ('/doc/a[@id="a2" or @n=1]', ['/1/0', '/1/2']), ('/doc/a[@id="a2" and @n=1]', []),
        ('/doc/a[count(*) = 2]', ['/1/2']), ('/doc/a[last()][@n=10]', ['/1/4']), ('/doc/*[self::a][2]', ['/1/2']),
        ('/doc/a/b[../@n = 1][3]', ['/1/0/4']), ('/child::doc/child::a[position()=1]/child::b[position()=last()]', ['/1/0/4']),
        ('//a[.//d:e]', ['/1/2']), ('//*[not(*)][not(text())]', ['/1/2/1/0', '/1/4']),
        ('//*[@*][1]', ['/1', '/1/0', '/1/2/0']), ('/doc/a[3]/preceding-sibling::a', ['/1/0', '/1/2']),
        ('/doc/a[3]/preceding-sibling::a[1]', ['/1/2']), ('/doc/a[3]/preceding-sibling::a[1]/@n', ['/1/2/@{}n']),
        ('/doc/a[1]/following-sibling::a[2]', ['/1/4']), ('/doc/text()', ['/1/3']), ('string(/doc/text())', 'tail'),
    ])
    # abbreviation equivalences (Rec 2.5): both sides must be the same node-set
    node = d.by_key('/1/0')
    for a, b in [('b', 'child::b'), ('*', 'child::*'), ('text()', 'child::text()'), ('@n', 'attribute::n'),
                 ('@*', 'attribute::*'), ('b[1]', 'child::b[position()=1]'), ('b[last()]', 'child::b[position()=last()]'),
                 ('*/b', 'child::*/child::b'), ('/doc/a[2]/p:b[1]', '/child::doc/child::a[position()=2]/child::p:b[position()=1]'),
                 ('//b', '/descendant-or-self::node()/child::b'), ('.//b', 'self::node()/descendant-or-self::node()/child::b'),
                 ('..', 'parent::node()'), ('../@id', 'parent::node()/attribute::id'), ('.', 'self::node()'),
                 ('a[@n="2"]', 'child::a[attribute::n="2"]'), ('b//text()', 'child::b/descendant-or-self::node()/child::text()'),
                 ('.//.', 'self::node()/descendant-or-self::node()/self::node()'), ('//@*', '/descendant-or-self::node()/attribute::*'),
                 ('b[2]/..', 'child::b[2]/parent::node()'), ('../a[3]', 'parent::node()/child::a[3]')]:
        COUNT[0] += 1
        ra, rb = ev(a, node), ev(b, node)
        if keys(ra) != keys(rb):
            fail('abbreviation %s = %s: %r vs %r' % (a, b, keys(ra), keys(rb)))
    # structural axes cross-check: partition property (Rec 2.2): ancestor, descendant,
    # following, preceding and self partition the tree nodes of the document
    tree = d.nodes(False, False)
    for n in d.nodes(True, True):
        COUNT[0] += 1
        parts = [rx.axis_nodes(a, n) for a in ('ancestor', 'descendant', 'following', 'preceding', 'self')]
        allp = [x for p in parts for x in p]
        exp = list(tree) + ([n] if n.kind in ('attribute', 'namespace') else [])
        if sorted(x.order for x in allp) != sorted(x.order for x in exp):
            fail('axis partition fails at %s' % n.key)
        # reverse axes really are in reverse document order, forward in document order
        for ax in rx.AXES:
            seq = [x.order for x in rx.axis_nodes(ax, n)]
            if ax in rx.REVERSE_AXES:
                seq = seq[::-1]
            if seq != sorted(seq):
                fail('axis %s from %s not in axis order' % (ax, n.key))
        # following/preceding defined through document order (independent formulation)
        if n.kind not in ('attribute', 'namespace'):
            anc = set(x.order for x in rx.axis_nodes('ancestor', n))
            desc = set(x.order for x in rx.axis_nodes('descendant', n))
            fol = [x.key for x in tree if x.order > n.order and x.order not in desc]
            pre = [x.key for x in tree if x.order < n.order and x.order not in anc]
        else:
            anc = set(x.order for x in rx.axis_nodes('ancestor', n))
            fol = [x.key for x in tree if x.order > n.order]
            pre = [x.key for x in tree if x.order < n.order and x.order not in anc]
        if keys(rx.axis_nodes('following', n)) != fol:
            fail('following axis from %s' % n.key)
        if keys(rx.axis_nodes('preceding', n))[::-1] != pre:
            fail('preceding axis from %s' % n.key)


def test_functions(d):
    # node-set functions, context <p:b>
    table(d, '/1/2/0', [
        ('name()', 'p:b'), ('local-name()', 'b'), ('namespace-uri()', 'urn:p'), ('name(..)', 'a'),
        ('name(/)', ''), ('local-name(/)', ''), ('namespace-uri(/)', ''), ('name(//comment())', ''),
        ('name(//processing-instruction())', 'pi'), ('local-name(//processing-instruction())', 'pi'),
        ('namespace-uri(//processing-instruction())', ''), ('name(text())', ''), ('local-name(text())', ''),
        ('name(@xml:lang)', 'xml:lang'), ('namespace-uri(@xml:lang)', XML), ('local-name(@*)', 'lang'),
        ('name(../d:c)', 'c'), ('namespace-uri(../d:c)', 'urn:d'), ('local-name(../d:c/d:e)', 'e'),
        ('name(/..)', ''), ('local-name(/..)', ''), ('namespace-uri(/..)', ''),
        ('name(//a)', 'a'), ('name(//b | //a)', 'a'), ('name(//@n | //@id)', 'id'), ('name(//a/@*[2])', 'n'),
        ('name(namespace::*[2])', 'p'), ('local-name(namespace::xml)', 'xml'), ('namespace-uri(namespace::p)', ''),
        ('string(/)', 't11234tail'), ('string(//b)', '1'), ('string(//b[2])', '2'), ('string(/..)', ''),
        ('string()', '4'), ('string(.)', '4'), ('string(..)', '4'), ('string(//a)', 't1123'), ('string(//comment())', 'c0'),
        ('string(//processing-instruction())', 'data'), ('string(/processing-instruction())', ''),
        ('string(@xml:lang)', 'en-GB'), ('string(//a[3])', ''), ('number()', 4), ('number(//a)', NaN),
        ('number(/..)', NaN), ('number(//a/@n)', 1), ('number(//a[3]/@n)', 10), ('sum(//b)', 6), ('sum(//a/@n)', 13),
        ('sum(/..)', 0), ('sum(//a)', NaN), ('sum(//b | .)', 10), ('count(/..)', 0), ('count(//b | //b)', 3),
        ('count(//a/@*)', 7), ('boolean(/..)', False), ('boolean(//b)', True), ('boolean(//zz)', False),
        ('string-length()', 1), ('string-length(..)', 1), ('string-length(/)', 10), ('string-length(//a)', 5),
        ('normalize-space()', '4'), ('normalize-space(/doc/text())', 'tail'), ('concat(//a/@id, "-", //b[3])', 'a1-3'),
        ('last()', 1), ('position()', 1), ('lang("en")', True), ('lang("en-GB")', True), ('lang("en-gb-x")', False),
        ('lang("EN")', True), ('lang("fr")', False), ('lang("")', False),
        ('//b[position() = last()] = 3', True), ('//b[position() = last() - 1]', ['/1/0/2']),
        ('//b[string-length(.) = 1][last()]', ['/1/0/4']), ('//a[string-length(@id) = 2][2]/@id', ['/1/2/@{}id']),
    ])
    r = d.root
    # string functions (Rec 4.2 incl. all its examples)
    table(d, '/', [
        ('concat("a", "b")', 'ab'), ('concat("a", 1, true(), //b)', 'a1true1'), ('concat("", "")', ''),
        ('starts-with("abc", "ab")', True), ('starts-with("abc", "")', True), ('starts-with("", "")', True),
        ('starts-with("abc", "b")', False), ('starts-with("", "a")', False), ('starts-with(123, 12)', True),
        ('contains("abc", "bc")', True), ('contains("abc", "")', True), ('contains("", "")', True),
        ('contains("abc", "d")', False), ('contains("abc", "abcd")', False),
        ('substring-before("1999/04/01", "/")', '1999'), ('substring-after("1999/04/01", "/")', '04/01'),
        ('substring-after("1999/04/01", "19")', '99/04/01'), ('substring-before("abc", "")', ''),
        ('substring-after("abc", "")', 'abc'), ('substring-before("abc", "d")', ''), ('substring-after("abc", "d")', ''),
        ('substring-before("abc", "abc")', ''), ('substring-after("abc", "abc")', ''), ('substring-before("aXbXc", "X")', 'a'),
        ('substring-after("aXbXc", "X")', 'bXc'),
        ('substring("12345", 2, 3)', '234'), ('substring("12345", 2)', '2345'),
        ('substring("12345", 1.5, 2.6)', '234'), ('substring("12345", 0, 3)', '12'),
        ('substring("12345", 0 div 0, 3)', ''), ('substring("12345", 1, 0 div 0)', ''),
        ('substring("12345", -42, 1 div 0)', '12345'), ('substring("12345", -1 div 0, 1 div 0)', ''),
        ('substring("12345", 0)', '12345'), ('substring("12345", 6)', ''), ('substring("12345", 5)', '5'),
        ('substring("12345", -1 div 0)', '12345'), ('substring("12345", 1 div 0)', ''), ('substring("12345", 0 div 0)', ''),
        ('substring("12345", 1, -1)', ''), ('substring("12345", 1, 0)', ''), ('substring("12345", 1, 1)', '1'),
        ('substring("12345", 1.5)', '2345'), ('substring("12345", 1.4)', '12345'), ('substring("12345", 0.5)', '12345'),
        ('substring("12345", 0.5, 1)', '1'), ('substring("12345", 0.4, 1)', ''), ('substring("12345", -0.5, 2)', '1'),
        ('substring("12345", -0.6, 2)', ''), ('substring("12345", 2.5, 1)', '3'), ('substring("12345", 2, 1.5)', '23'),
        ('substring("12345", 2, 1.4)', '2'), ('substring("12345", 1 div 0, 1 div 0)', ''), ('substring("12345", -1 div 0, 5)', ''),
        ('substring("12345", 4, 1 div 0)', '45'), ('substring("12345", 3, -1 div 0)', ''), ('substring("", 1, 1)', ''),
        ('substring("12345", 0.49999999999999994, 1)', ''), ('substring("12345", "2", "2")', '23'),
        ('substring("a\U0001F600b", 2, 1)', '\U0001F600'), ('substring("a\U0001F600b", 3)', 'b'),
        ('string-length("")', 0), ('string-length("abc")', 3), ('string-length("\U0001F600")', 1),
        ('string-length("é")', 2), ('string-length(12.5)', 4), ('string-length(true())', 4),
        ('normalize-space("  a  b  ")', 'a b'), ('normalize-space("\t\r\na\n\n b\t")', 'a b'), ('normalize-space("")', ''),
        ('normalize-space("   ")', ''), ('normalize-space("a  b")', 'a  b'), ('normalize-space("a b")', 'a b'),
        ('normalize-space("a\x0bb")', 'a\x0bb') if False else ('normalize-space("ab")', 'ab'),
        ('translate("bar", "abc", "ABC")', 'BAr'), ('translate("--aaa--", "abc-", "ABC")', 'AAA'),
        ('translate("abc", "", "x")', 'abc'), ('translate("abc", "abc", "")', ''), ('translate("aabbcc", "aab", "xyz")', 'xxzzcc'),
        ('translate("abc", "abca", "wxyz")', 'wxy'), ('translate("abc", "ab", "xyz")', 'xyc'), ('translate("", "a", "b")', ''),
        ('translate("a\U0001F600", "\U0001F600a", "xy")', 'yx'), ('translate("abc", "b", "\U0001F600")', 'a\U0001F600c'),
        ('string("x")', 'x'), ('string(true())', 'true'), ('string(false())', 'false'), ('string(1 = 1)', 'true'),
        ('boolean("")', False), ('boolean("0")', True), ('boolean("false")', True), ('boolean(0)', False),
        ('boolean(-0)', False), ('boolean(0 div 0)', False), ('boolean(1 div 0)', True), ('boolean(0.0001)', True),
        ('boolean(-1)', True), ('boolean(/)', True), ('not(true())', False), ('not(false())', True), ('not("")', True),
        ('not(0 div 0)', True), ('true()', True), ('false()', False), ('not(/..)', True), ('not(/)', False),
    ])
    # numbers: conversions, operators, floor/ceiling/round (Rec 3.5, 4.4)
    table(d, '/', [
        ('number("1")', 1), ('number(" 1 ")', 1), ('number("\t\r\n1.5\n")', 1.5), ('number("-1")', -1), ('number("- 1")', NaN),
        ('number("+1")', NaN), ('number("1e3")', NaN), ('number("1E3")', NaN), ('number(".5")', 0.5), ('number("5.")', 5),
        ('number(".")', NaN), ('number("-.5")', -0.5), ('number("-5.")', -5), ('number("1.2.3")', NaN), ('number("")', NaN),
        ('number(" ")', NaN), ('number("-")', NaN), ('number("--1")', NaN), ('number("Infinity")', NaN), ('number("-Infinity")', NaN),
        ('number("NaN")', NaN), ('number("0x10")', NaN), ('number("1 2")', NaN), ('number("1,5")', NaN), ('number("١")', NaN),
        ('number("1 ")', NaN), ('number("-0")', -0.0), ('number("0")', 0.0), ('number("00012.500")', 12.5),
        ('number("0.1")', 0.1), ('number("9007199254740993")', 9007199254740992.0), ('number("0.49999999999999994")', 0.49999999999999994),
        ('number("123456789012345678901234567890")', 1.2345678901234568e29), ('number("1" )', 1),
        ('number(true())', 1), ('number(false())', 0), ('number(1 = 2)', 0), ('number("abc")', NaN), ('number(//b)', 1),
        ('1 + 2', 3), ('1 - 2', -1), ('2 * 3', 6), ('7 div 2', 3.5), ('1 div 0', INF), ('-1 div 0', -INF), ('0 div 0', NaN),
        ('1 div -0', -INF), ('-1 div -0', INF), ('0 div 1', 0.0), ('-0 div 1', -0.0), ('0 div -1', -0.0), ('1 div (1 div 0)', 0.0),
        ('-1 div (1 div 0)', -0.0), ('(1 div 0) div (1 div 0)', NaN), ('(1 div 0) - (1 div 0)', NaN), ('(1 div 0) * 0', NaN),
        ('(1 div 0) + 1', INF), ('0.1 + 0.2', 0.30000000000000004), ('1 div 3', 1 / 3.0),
        ('5 mod 2', 1), ('5 mod -2', 1), ('-5 mod 2', -1), ('-5 mod -2', -1), ('5.5 mod 2', 1.5), ('-5.5 mod 2', -1.5),
        ('5 mod 0', NaN), ('0 mod 5', 0.0), ('-0 mod 5', -0.0), ('5 mod (1 div 0)', 5), ('-5 mod (1 div 0)', -5),
        ('(1 div 0) mod 5', NaN), ('(0 div 0) mod 5', NaN), ('5 mod (0 div 0)', NaN), ('-4 mod 2', -0.0), ('4 mod 2', 0.0),
        ('6 mod 4', 2), ('1 mod 0.1', math.fmod(1, 0.1)), ('5 mod 2.5', 0.0), ('(0 div 0) mod -10', NaN),
        ('-1', -1), ('--1', 1), ('- - 1', 1), ('---1', -1), ('-0', -0.0), ('- 0', -0.0), ('--0', 0.0), ('1 - -1', 2), ('1--1', 2),
        ('-"1"', -1), ('-true()', -1), ('-//b', -1), ('-(//b)', -1), ('-(0 div 0)', NaN), ('1 div -(0)', -INF),
        ('"1" + "2"', 3), ('"a" + 1', NaN), ('true() + true()', 2), ('//b + //b', 2), ('//b[2] * //b[3]', 6),
        ('1 + 2 * 3', 7), ('(1 + 2) * 3', 9), ('1 - 2 - 3', -4), ('1 - (2 - 3)', 2), ('8 div 4 div 2', 1), ('8 div (4 div 2)', 4),
        ('2 * 3 mod 4', 2), ('2 + 3 mod 2', 3), ('7 mod 4 mod 2', 1), ('-2 * 3', -6), ('2 * -3', -6), ('-2 * -3', 6), ('1 + -1', 0.0),
        ('floor(1.5)', 1), ('floor(-1.5)', -2), ('floor(2)', 2), ('floor(-0.5)', -1), ('floor(0.5)', 0.0), ('floor(0)', 0.0),
        ('floor(-0)', -0.0), ('floor(0 div 0)', NaN), ('floor(1 div 0)', INF), ('floor(-1 div 0)', -INF), ('floor("1.9")', 1),
        ('floor(1e0)' if False else 'floor(123456789012345678)', 123456789012345680.0),
        ('ceiling(1.5)', 2), ('ceiling(-1.5)', -1), ('ceiling(2)', 2), ('ceiling(0.5)', 1), ('ceiling(-0.5)', -0.0), ('ceiling(0)', 0.0),
        ('ceiling(-0)', -0.0), ('ceiling(0 div 0)', NaN), ('ceiling(1 div 0)', INF), ('ceiling(-1 div 0)', -INF), ('ceiling(-0.0001)', -0.0),
        ('round(1.5)', 2), ('round(2.5)', 3), ('round(-1.5)', -1), ('round(-2.5)', -2), ('round(0.5)', 1), ('round(-0.5)', -0.0),
        ('round(-0.2)', -0.0), ('round(-0.5000001)', -1), ('round(0.2)', 0.0), ('round(0.49999999999999994)', 0.0), ('round(0)', 0.0), ('round(-0)', -0.0),
        ('round(0 div 0)', NaN), ('round(1 div 0)', INF), ('round(-1 div 0)', -INF), ('round(1.4)', 1), ('round(1.6)', 2), ('round(-1.4)', -1),
        ('round(-1.6)', -2), ('round(4503599627370497)', 4503599627370497.0), ('round(4503599627370496.5)', 4503599627370496.0),
        ('round(2251799813685248.5)', 2251799813685249.0), ('round(-2251799813685248.5)', -2251799813685248.0),
        ('round(9007199254740993)', 9007199254740992.0), ('round(123.456)', 123), ('round("2.5")', 3), ('round(1e0)' if False else 'round(-3)', -3),
        ('1 div round(-0.5)', -INF), ('1 div round(-0.2)', -INF), ('1 div round(0.2)', INF), ('1 div ceiling(-0.5)', -INF),
        ('1 div floor(-0)', -INF), ('1 div (-4 mod 2)', -INF), ('1 div (0 * -1)', -INF), ('1 div (-0 + 0)', INF), ('1 div (-0 - 0)', -INF),
        ('1 div (0 - 0)', INF), ('1 div sum(/..)', INF), ('1 div number("-0")', -INF),
        ('.5', 0.5), ('5.', 5), ('0.5', 0.5), ('00.50', 0.5), ('1.0', 1), ('010', 10), ('.5 + .5', 1), ('5. + .5', 5.5), ('1 .5', None),
    ][:-1])
    # number -> string (Rec 4.2)
    table(d, '/', [
        ('string(0)', '0'), ('string(-0)', '0'), ('string(0 div 0)', 'NaN'), ('string(1 div 0)', 'Infinity'),
        ('string(-1 div 0)', '-Infinity'), ('string(1)', '1'), ('string(-1)', '-1'), ('string(1.0)', '1'), ('string(1.50)', '1.5'),
        ('string(0.1)', '0.1'), ('string(-0.1)', '-0.1'), ('string(.5)', '0.5'), ('string(100)', '100'), ('string(1000000)', '1000000'),
        ('string(1 div 3)', '0.3333333333333333'), ('string(2 div 3)', '0.6666666666666666'), ('string(0.1 + 0.2)', '0.30000000000000004'),
        ('string(1000000000000000000000)', '1000000000000000000000'), ('string(0.0000001)', '0.0000001'), ('string(0.000001)', '0.000001'),
        ('string(123456789012)', '123456789012'), ('string(1234567890.125)', '1234567890.125'), ('string(9007199254740992)', '9007199254740992'),
        ('string(4.35)', '4.35'), ('string(4.35 * 100)', '434.99999999999994'), ('string(1.1 * 1.1)', '1.2100000000000002'),
        ('string(100 div 3)', '33.333333333333336'), ('string(1 div 1024)', '0.0009765625'), ('string(123.456)', '123.456'),
        ('string(0.00001234)', '0.00001234'), ('string(1 div 4096 div 4096 div 4096)', '0.000000000014551915228366852'),
        ('string(2147483648)', '2147483648'), ('string(-2147483649)', '-2147483649'), ('string(1.5 * 1000000000000)', '1500000000000'),
        ('string(12345678901234567890)', '12345678901234567168'), ('concat(1, 2.5, -3)', '12.5-3'), ('string(7 div 2)', '3.5'),
    ])
    for x, s in [(1e21, '1000000000000000000000'), (1e-7, '0.0000001'), (-0.0, '0'), (0.1, '0.1'), (1e22, '10000000000000000000000'),
                 (1.5e300, str(int(1.5e300))), (5e-324, '0.' + '0' * 323 + '5'), (2.0 ** 53, '9007199254740992'),
                 (2.0 ** 63, '9223372036854775808'), (-2.0 ** 63, '-9223372036854775808'), (1e23, '99999999999999991611392'),
                 (123456789.125, '123456789.125'), (1.7976931348623157e308, str(int(1.7976931348623157e308))),
                 (2.2250738585072014e-308, '0.' + '0' * 307 + '22250738585072014'), (0.000123, '0.000123'), (1e-5, '0.00001'),
                 (1.2345e-10, '0.00000000012345'), (100.0, '100'), (1e15 + 0.5, '1000000000000000.5'), (NaN, 'NaN'), (INF, 'Infinity')]:
        COUNT[0] += 1
        if rx.number_to_string(x) != s:
            fail('number_to_string(%r) = %r, expected %r' % (x, rx.number_to_string(x), s))
    # comparisons (Rec 3.4): the whole type matrix
    V = {'e': [], 'n3': d.by_key('/1/0/4') and [d.by_key('/1/0/4')]}
    table(d, '/', [
        # node-set vs node-set: existential, on string-values (= !=) / numbers (< ...)
        ('//b = //b', True), ('//b != //b', True), ('//b[1] = //b[1]', True), ('//b[1] != //b[1]', False),
        ('//b = //a/@n', True), ('//b = //a/@id', False), ('//b != //a/@id', True), ('//b < //b', True), ('//b[1] < //b[1]', False),
        ('//b[1] <= //b[1]', True), ('//b[1] >= //b[1]', True), ('//b > //a/@n', True), ('//b > //a/@n[. = 10]', False),
        ('//b < //a/@id', False), ('//b >= //a/@id', False), ('//a/@id <= //a/@id', False), ('//a/@id = //a/@id', True),
        ('$e = $e', False), ('$e != $e', False), ('$e = //b', False), ('//b != $e', False), ('$e < //b', False), ('$e <= $e', False),
        ('//text() = "tail"', True), ('//b = //text()', True), ('/doc/a = /doc/a', True), ('/doc/a[1] = /doc/a[3]', False),
        ('/doc/a[1] != /doc/a[3]', True), ('/doc/a[3] = ""', True), ('//a[3] < 1', False), ('//a[3] >= 0', False),
        # node-set vs number
        ('//b = 2', True), ('//b != 2', True), ('//b = 4', False), ('//b != 4', True), ('2 = //b', True), ('//b > 2', True), ('//b > 3', False),
        ('//b >= 3', True), ('3 <= //b', True), ('//b < 1', False), ('1 > //b', False), ('1 >= //b', True), ('$e = 0', False), ('$e != 0', False),
        ('$e < 1', False), ('0 = $e', False), ('//a = 0', False), ('//a != 0', True), ('//a/@id = (0 div 0)', False), ('//a/@id != (0 div 0)', True),
        ('//b[1] = 1.0', True), ('//a/@n = 10', True), ('//a/@n > 9', True), ('//a/@n < 1', False), ('//a[1] = //a[1]/b', False),
        # node-set vs string
        ('//b = "2"', True), ('//b = "2.0"', False), ('//b != "2"', True), ('"2" = //b', True), ('//b[2] != "2"', False), ('$e = ""', False),
        ('$e != ""', False), ('"" = $e', False), ('//b > "1"', True), ('//b < "1"', False), ('"2" < //b', True), ('//b >= "a"', False),
        ('//a/@id = "a2"', True), ('//a/@id != "a2"', True), ('//a/@id[. = "a2"] != "a2"', False), ('//a/@id > "a1"', False),
        # node-set vs boolean: boolean(node-set)
        ('//b = true()', True), ('//b != true()', False), ('//b = false()', False), ('$e = false()', True), ('$e = true()', False),
        ('$e != true()', True), ('true() = //zz', False), ('false() = //zz', True), ('//b > false()', True), ('//b >= true()', True),
        ('//b > true()', False), ('$e < true()', True), ('$e <= false()', True), ('$e < false()', False), ('true() > $e', True),
        ('false() >= //b', False), ('//a[3] = true()', True), ('//a[3] = false()', False),
        # no node-set: = and !=
        ('true() = 1', True), ('true() = 2', True), ('true() = "a"', True), ('true() = ""', False), ('false() = ""', True), ('false() = 0', True),
        ('false() = (0 div 0)', True), ('true() != 0', True), ('false() != "false"', True), ('true() = "false"', True), ('true() = true()', True),
        ('true() != true()', False), ('false() = false()', True), ('true() = false()', False), ('true() != false()', True),
        ('1 = "1"', True), ('1 = "1.0"', True), ('1 = " 1 "', True), ('"1" = "1.0"', False), ('1 = "a"', False), ('1 != "a"', True),
        ('(0 div 0) = (0 div 0)', False), ('(0 div 0) != (0 div 0)', True), ('(0 div 0) = "NaN"', False), ('"NaN" = "NaN"', True),
        ('(0 div 0) != "NaN"', True), ('0 = -0', True), ('0 != -0', False), ('"0" = "-0"', False), ('0 = "-0"', True), ('(1 div 0) = (1 div 0)', True),
        ('(1 div 0) != (-1 div 0)', True), ('"a" = "a"', True), ('"a" = "A"', False), ('"a" != "A"', True), ('"" = ""', True), ('"" != ""', False),
        ('"é" = "é"', False), ('0.1 + 0.2 = 0.3', False), ('0.5 + 0.25 = 0.75', True),
        # no node-set: relational -> numbers
        ('1 < 2', True), ('2 < 1', False), ('1 <= 1', True), ('1 >= 1', True), ('1 > 1', False), ('"1" < "2"', True), ('"a" < "b"', False),
        ('"a" <= "a"', False), ('"a" >= "a"', False), ('"10" > "9"', True), ('true() > false()', True), ('true() >= 1', True), ('true() > 1', False),
        ('true() < 2', True), ('"" < 1', False), ('"" >= 0', False), ('false() < "1"', True), ('(0 div 0) < 1', False), ('(0 div 0) >= 1', False),
        ('(0 div 0) <= (0 div 0)', False), ('(0 div 0) >= (0 div 0)', False), ('1 < (1 div 0)', True), ('(-1 div 0) < (1 div 0)', True),
        ('(1 div 0) <= (1 div 0)', True), ('-0 < 0', False), ('-0 <= 0', True), ('-0 >= 0', True), ('"2" > true()', True), ('"true" >= true()', False),
        # precedence / associativity of comparison operators (Rec 3.4: 3 > 2 > 1 is (3 > 2) > 1 = false)
        ('3 > 2 > 1', False), ('1 < 2 < 3', True), ('1 = 1 = 1', True), ('2 = 2 = 2', True), ('2 = 2 = 0', False), ('1 = 2 = 0', True), ('1 < 2 = true()', True),
        ('1 = 1 < 2', True), ('0 = 1 < 2', False), ('1 != 1 = false()', True), ('1 + 1 = 2', True), ('2 = 1 + 1', True), ('1 < 1 + 1', True), ('1 + 1 < 1', False),
        # and / or
        ('true() and true()', True), ('true() and false()', False), ('false() or true()', True), ('false() or false()', False),
        ('1 and "a"', True), ('0 or ""', False), ('//b and //zz', False), ('//b or //zz', True), ('true() or false() and false()', True),
        ('(true() or false()) and false()', False), ('false() and false() or true()', True), ('1 or 1 div 0 = 1', True), ('not(1 = 2) and 2 = 2', True),
        ('1 = 1 and 2 = 2', True), ('1 = 1 or 2 = 3 and 3 = 4', True), ('true() or $undefined', True), ('false() and $undefined', False),
        ('true() or count(1)', True), ('false() and (1 | 2)', False), ('true() or "a"/b', True),
        ('$x <= $x', True), ('$x >= $x', True), ('$nan = $nan', False), ('$nan != $nan', True), ('$t <= $t', True), ('$x = $x', True), ('$ns = $ns', True),
        ('$ns != $ns', True), ('$one != $one', False), ('$one <= $one', True),
    ], variables={'e': [], 'x': 3.0, 'nan': NaN, 't': True, 'ns': rx.make_nodeset(list(d.by_key('/1/0').children)),
                  'one': [d.by_key('/1/0/1')]})


VALID = [
    '1', '5.', '.5', '0.5', '00.50', '"a"', "'a'", '"it\'s"', "'say \"x\"'", '""', '$x', '$p:x', '$and', '/', '//a', '/a', 'a', 'a/b', 'a//b',
    '.', '..', './a', '../a', './/a', '@a', '@*', '@p:a', '@p:*', '*', 'p:*', 'p:a', 'child::a', 'child::*', 'child :: a', 'child::  p:a',
    'a [ 1 ]', 'a[1][2]', ' a ', '\ta\n', 'a\n/\nb', '( a )', '((a))', '(a)[1]', '(a)/b', '(a)//b', '(a)[1]/b[2]', '$x[1]', '$x/a', '$x//a',
    'f()', 'f( )', 'f (1)', 'f\n(1,2)', 'p:f(1)', 'f(a, b, c)', 'f()[1]', 'f()/a', 'id("a")/b', 'id("a")[1]', 'last()', 'last ( )',
    'text()', 'text ()', 'text( )', 'node()', 'comment()', 'processing-instruction()', "processing-instruction('x')",
    'processing-instruction ( "x" )', 'child::text()', 'a/text()', 'a/node()[1]', '@node()', 'attribute::node()', 'namespace::*',
    'namespace::p', 'ancestor-or-self::*', 'ancestor-or-self ::*', 'self::node()', 'descendant-or-self::node()/a',
    'a[/]', '(/ | @i)', '/ | a', 'a | /', '/|/', 'a[(/) and /]', 'a[/=/]', '/=/', '/ = /', '/</', '/ + 1', '1 + /', '(/)', '(/)[1]', 'f(/)', 'f(/, /)',
    '- - 1', '--1', '-1', '- 1', '-a', '-(a|b)', '-a|b', '1--1', '1 - -1', '1- -1', 'a - b', 'a -b', '(a)-(b)', 'a and and', 'a or or', '1 div div', '/ -1', '2**', '**2', '2 * * ', '-a-', 'a.-.', 'processing-instruction:a', '1-1', '$x -1', '$x - 1',
    'div div div', 'a div div div b', '* * *', '* div *', '* mod *', 'and and and', 'or or or', 'mod mod mod', 'and or or', 'div', 'mod', 'and', 'or',
    '@and and @or', '@div div @mod', '$div div $mod', '*[*]', '*/*', '*|*', '*=*', '*<*', '2*3', '2 * 3', 'a*b', '@a*@b', '$x*2', '.*2', '..*2',
    'text()*2', '"a"*2', '(a)*2', 'a[1]*2', '*[1]*2', '* * 2', '2 * *', '***', '*****', '-*', '--*', '- *', '*-*', '* - *', 'a/*/b', 'a/ * /b', '//*', '//@*',
    'a mod(3)', 'a div(3)', 'a and(b)', 'a or(b)', '3div 4', '3 div 4', '3mod 4', '1and 2', '1or 2', '"a"and"b"', '(1)or(2)', '(a)div(b)', '.5div 1', '5.div 1',
    'a-b', 'a.b', 'a..b', 'a.', 'a-', 'a.-', '_', '_a', 'a_b', '__:__', 'a1', 'a-1', 'é', 'é:é', 'a·', 'àb', '一',
    'a = b', 'a != b', 'a < b', 'a <= b', 'a > b', 'a >= b', 'a!=b', 'a<=b', 'a>=b', 'a=b', '1 = 2 = 3', '1 < 2 < 3', 'a=-1', 'a = - 1',
    'a and b or c', 'a or b and c', 'not(a and (b or c))', '1 + 2 * 3 - 4 div 5 mod 6', 'a | b | c', 'a|b/c', 'a|b[1]', '(a|b)/c', '(a|b)[1]',
    '1[1]', '"a"[1]', '"a"/b', '(1)/b', '1|2', "'a'|b", '$x|$y', 'f()|g()', 'a[b][c]', 'a[b[c]]', 'a[b[c[d]]]', 'a[(b)]', 'a[1 + 1]', 'a[position() = last()]',
    'node', 'text', 'comment', 'processing-instruction', 'child', 'self', 'parent/child', 'ancestor/descendant', 'node/text', 'true', 'last',
    'node[1]', 'text/comment', 'div/mod', 'and/or', '@text', '@node', '$node', '$text', 'child::child', 'self::self', 'child::node', 'child::text',
    'child::div', 'child::and', 'div::' if False else 'child::mod', 'foo:bar(1)', 'xml:lang', '@xml:lang', 'xmlns', '@xmlns:p',
    'a/b/c/d/e/f/g', '/a/b', '//a//b', '/a//b/c', 'a/./b', 'a/../b', './.', './/.', '..//..', '../..', 'a/@b', 'a//@b', '@a/..', '@a/../b',
    '1.5', '1.50', '0', '00', '0.0', '.0', '0.', '123456789012345678901234567890', '0.123456789012345678901234567890',
    '3.14 * 2', 'a[1.5]', 'a[.5]', 'a[5.]', '"a" = \'a\'', 'concat("a", \'b\')', 'a[@b="c"]', "a[@b='c']", 'a[@b = "it\'s"]',
]

INVALID = [
    '', ' ', '1e3', '1E3', '1.5e-3', '1e', '1.e', '1e+1', '1 +', '+ 1', '+1', '1 + + 1', '1-+1', '$ x', '$', '$1', '$x:', '$x :y', '$x: y', '$x:*', '$:x', '$$x',
    '. ..', '.. .', '.[1]', '..[1]', '.a', '..a', '...', '....', '.../a', 'a...b' if False else '. .', '1.5.3', '1..2', '1..', '.1.', '1.1.', '0..0',
    'a:b:c', 'a: b', 'a :b', 'a : b', 'p: *', 'p :*', 'a:', ':a', ':', '::', 'a::', '::a', 'a::b', 'foo::a', 'child::', 'child::.', 'child::..', 'child::@a',
    '@child::a', 'attribute::@a', '@@a', '@', '@.', '@..', '@1', '@"a"', '@(a)', '@a:b:c', 'child:a' if False else 'child:::a', 'child: :a', 'child : : a',
    'child::child::a', 'child::a::b', 'child::*::b', 'child::(a)', 'child::[1]', 'child::1', "child::'a'", 'child::$x', 'child::f()', 'child::node(())',
    'descendent::a', 'children::a', 'Child::a', 'CHILD::a', 'self ::', 'ancestor -or-self::*', 'ancestor- or-self::*',
    "text('x')", "comment('x')", "node('x')", 'node(1)', 'text(a)', 'processing-instruction(x)', 'processing-instruction(1)',
    "processing-instruction('a', 'b')", 'processing-instruction(', "processing-instruction('a'", 'processing-instruction::a', 'a[/ and /]', 'a- b',
    "a/id('x')", 'a/f()', 'a/$x', 'a/1', "a/'b'", 'a/-b', 'a/(b)', 'a/(b|c)', '/(a)', '//(a)', 'a/[1]', 'a//[1]', 'a/@', 'a/@[1]', 'a/::b',
    'a//', '//', '///', '/ /', '// //a', '///a', 'a/ /b', 'a///b', 'a/b/', 'a/ /', 'a| ', '|a', 'a||b', 'a|', '|', 'a|-b', '-a|-b', 'a|(-b)' if False else 'a | | b',
    '()', '(', ')', '(a', 'a)', '(a))', '((a)', '(a)(b)', '(1)(2)', '(a)b', 'a(b)' if False else 'a b', '1 2', '"a" "b"', 'a "b"', "'a", '"a', "'a'b'", "'''", 'a[', 'a]', 'a[]',
    'a[1', 'a]1', 'a[[1]]', 'a[1][', 'a[1]]', 'a[1]b', '[1]', '[a]', 'a[1,2]', 'f(', 'f)', 'f(a,)', 'f(,a)', 'f(a b)', 'f(,)', 'f((a)', 'f(a))', 'f()()', 'last()()',
    '$x(1)', '1(2)', '"a"(1)', '(a)(1)', 'a,b', ',', 'a,', ',a', '1 ! = 2', '1 ! 2', '!', '!=', '1 !=', '!= 1', '1 = = 2', '1 < = 2', '1 > = 2', '1 <> 2', '1 == 2',
    '1 =! 2', '1 => 2', '1 =< 2', '=', '<', '>', '<=', '>=', '1 <', '< 1', '1 = ', '= 1', '1 and', 'and 1', '1 or', 'or 1', '1 div', 'div 1', '1 mod', 'mod 1',
    '1 *', '* 1' if False else '1 * ', '1 * * ' if False else '2 * * *' if False else '1 -', '-', '- -', '--', 'a a', 'a b c', 'a mod', 'a 1', '1 a', '1 $x', '$x $y', '$x 1',
    '/ or x', '/ and x', '/ div 2', '/ mod 2', '/ * 3', '/ * * 3' if False else '/ 3', '/ "a"', '/ $x', '/ (a)', '/ f()',
    '3 div4', '1 div0', '1div0', '1 or2', '1 and2', 'a andb', 'a and:b', 'a and-b', 'a and.5', 'a and::b', 'a mod:a', '1 mod2',
    '**', '****', '*:a', '@*:a', '*:*', 'p:*:*', 'self::*:b', 'child::*:*', '*a', 'a*', '* a', 'a *', '*1', '1*', '(*)(*)',
    '#', '%', '&', '~', '`', '^', '{', '}', ';', '\\', '?', 'a?', 'a;b', 'a&b', 'a#b', 'a%b', 'a~b', 'a^b', 'a{1}', 'a\\b', 'a`b',
    'a\x0cb', 'a\x0bb', 'a\u2003b', 'a\u00a0', '\u00a0a', 'a\u00a0b', '\ufeffa', 'a\u200bb', 'a\u2028b', 'a\u0085b', 'a\x00b', 'a\x7f' if False else 'a\x1f',
    '1a', '1_000', '1,000', '0x1', '1f', '1d', '1L', '-1-', '.a.', '1 .5', '5 .', '. 5', '.5.5',
    '·a', '̀a', '-a:b' if False else 'a:-b', 'a:1', '1:a', 'a:.b', '٠', 'a:٠', '𐐀', 'a𐐀', 'a:𐐀',
    'not 1', 'not(1', 'not)1(', 'true(', 'true)', 'concat("a" "b")', 'concat("a",, "b")', 'f(1;2)', 'id(a))',
]


def test_syntax():
    seen = set()
    for e in VALID:
        if e in seen:
            continue
        seen.add(e)
        COUNT[0] += 1
        try:
            a = parse(e)
        except XPathSyntaxError as ex:
            fail('VALID rejected: %r (%s)' % (e, ex))
            continue
        except Exception as ex:   # noqa
            fail('VALID %r raised %s %s' % (e, type(ex).__name__, ex))
            continue
        try:
            u = rx.unparse(a)
            if parse(u) != a:
                fail('unparse round trip: %r -> %r' % (e, u))
        except ValueError:
            pass
    for e in INVALID:
        COUNT[0] += 1
        try:
            parse(e)
        except XPathSyntaxError:
            continue
        except Exception as ex:   # noqa
            fail('INVALID %r raised %s %s instead of XPathSyntaxError' % (e, type(ex).__name__, ex))
            continue
        fail('INVALID accepted: %r' % (e,))
    # AST shape for the disambiguation rules
    S = lambda name: ('step', 'child', ('name', None, name), (), None)   # noqa
    P = lambda *names: ('path', False, tuple(S(n) for n in names))      # noqa
    STAR = ('path', False, (('step', 'child', ('any',), (), None),))
    for e, ast in [
        ('div div div', ('bin', 'div', P('div'), P('div'))),
        ('and and and', ('bin', 'and', P('and'), P('and'))),
        ('or or or', ('bin', 'or', P('or'), P('or'))),
        ('mod mod mod', ('bin', 'mod', P('mod'), P('mod'))),
        ('* * *', ('bin', '*', STAR, STAR)),
        ('a div div div b', ('bin', 'div', ('bin', 'div', P('a'), P('div')), P('b'))),
        ('a mod(3)', ('bin', 'mod', P('a'), ('num', 3.0))),
        ('3div 4', ('bin', 'div', ('num', 3.0), ('num', 4.0))),
        ('a-b', P('a-b')), ('a - b', ('bin', '-', P('a'), P('b'))), ('a -b', ('bin', '-', P('a'), P('b'))),
        ('- - 1', ('neg', ('neg', ('num', 1.0)))), ('--1', ('neg', ('neg', ('num', 1.0)))),
        ('-a|b', ('neg', ('union', P('a'), P('b')))),
        ('1 - 2 - 3', ('bin', '-', ('bin', '-', ('num', 1.0), ('num', 2.0)), ('num', 3.0))),
        ('1 + 2 * 3', ('bin', '+', ('num', 1.0), ('bin', '*', ('num', 2.0), ('num', 3.0)))),
        ('a or b and c', ('bin', 'or', P('a'), ('bin', 'and', P('b'), P('c')))),
        ('a = b < c', ('bin', '=', P('a'), ('bin', '<', P('b'), P('c')))),
        ('a < b + c', ('bin', '<', P('a'), ('bin', '+', P('b'), P('c')))),
        ('a[/]', ('path', False, (('step', 'child', ('name', None, 'a'), (('path', True, ()),), None),))),
        ('/', ('path', True, ())), ('(/)', ('path', True, ())),
        ('/ | a', ('union', ('path', True, ()), P('a'))),
        ('//a', ('path', True, (('step', 'descendant-or-self', ('type', 'node'), (), '//'), S('a')))),
        ('a//b', ('path', False, (S('a'), ('step', 'descendant-or-self', ('type', 'node'), (), '//'), S('b')))),
        ('.', ('path', False, (('step', 'self', ('type', 'node'), (), '.'),))),
        ('..', ('path', False, (('step', 'parent', ('type', 'node'), (), '..'),))),
        ('@p:*', ('path', False, (('step', 'attribute', ('nsany', 'p'), (), '@'),))),
        ('child :: a', P('a')), ('text', P('text')), ('node/text', P('node', 'text')),
        ('text()', ('path', False, (('step', 'child', ('type', 'text'), (), None),))),
        ("processing-instruction('x')", ('path', False, (('step', 'child', ('pi', 'x'), (), None),))),
        ('processing-instruction()', ('path', False, (('step', 'child', ('type', 'processing-instruction'), (), None),))),
        ('f (1)', ('fn', None, 'f', (('num', 1.0),))), ('p:f()', ('fn', 'p', 'f', ())),
        ('$p:x', ('var', 'p', 'x')), ('(a)[1]', ('filter', P('a'), (('num', 1.0),))),
        ('(a)/b', ('fpath', P('a'), (S('b'),))), ('$x//b', ('fpath', ('var', None, 'x'), (('step', 'descendant-or-self', ('type', 'node'), (), '//'), S('b')))),
        ('5.', ('num', 5.0)), ('.5', ('num', 0.5)), ('"a\'b"', ('lit', "a'b")), ("''", ('lit', '')),
        ('a.b', P('a.b')), ('a..b', P('a..b')), ('*[*]', ('path', False, (('step', 'child', ('any',), (STAR,), None),))),
    ]:
        COUNT[0] += 1
        try:
            got = parse(e)
        except Exception as ex:   # noqa
            fail('AST %r raised %s' % (e, ex))
            continue
        if got != ast:
            fail('AST %r: %r != %r' % (e, got, ast))
    # semantic check of the operator-name rule with elements called and/or/div/mod
    dd = model.parse_document('<r><and>6</and><or>0</or><div>3</div><mod>4</mod><x and="1" div="2"/></r>')
    table(dd, '/0', [
        ('div div div', 1), ('and and and', True), ('or or or', True), ('mod mod mod', 0.0), ('and div div', 2), ('and mod mod', 2),
        ('and * div', 18), ('* * *', 36), ('and div div div div', 2 / 3.0), ('x/@and and x/@div', True), ('x/@div div x/@and', 2),
        ('and - div', 3), ('and -div', 3), ('and-div', []), ('count(*)', 5), ('count(* | *)', 5), ('*[3]*2', 6), ('sum(*)', NaN), ('sum(*[. != ""])', 13),
        ('div mod mod', 3), ('mod div div', 4 / 3.0), ('or or and', True), ('or and and', True), ('or and not(and)', False),
    ])


def test_errors(d):
    r = d.root
    for e in ['foo()', 'p:foo()', 'count()', 'count(1, 2)', 'concat("a")', 'concat()', 'true(1)', 'substring("a")',
              'substring("a", 1, 2, 3)', 'translate("a", "b")', 'last(1)', 'position(1)', 'not()', 'string(1, 2)',
              'zz:a', 'zz:*', '@zz:a', '$zz:v', 'zz:f()', 'true() or zz:a', 'true() or foo()', 'a[zz:b]', '//a[1][foo()]',
              'id()', 'lang()', 'lang("a", "b")', 'sum()', 'floor()', 'round(1, 2)', 'normalize-space(1, 2)', 'contains("a")',
              'key("a", "b")', 'current()', 'document("x")', 'generate-id()', 'count(/..) or unknown-fn(1)']:
        expect_error(e, XPathStaticError, r)
    for e in ['$undefined', '$p:undefined', 'count(1)', 'count("a")', 'count(true())', 'sum(1)', 'sum("1")', '1 | 2', '//a | 1', '"a" | //a',
              '"a"/b', '1/b', '(1)/b', 'true()/a', '1[1]', '"a"[1]', '(1 + 1)[1]', 'true()[1]', 'name(1)', 'local-name("a")', 'namespace-uri(true())',
              '$n/a', '$n[1]', '$s | //a', 'count($b)', 'false() or count(1)', 'concat("a", count(2))', '//a[count(1)]']:
        expect_error(e, XPathDynamicError, r, variables={'n': 1.0, 's': 'x', 'b': True})
    # xml prefix is implicitly bound
    table(d, '/', [('count(//@xml:lang)', 2), ('count(//@xml:*)', 2)])
    # extension function hook + XSLT current()
    a2 = d.by_key('/1/2')
    ctx = Context(d.by_key('/1/0'), 2, 5, {'v': [a2]}, {'f': 'urn:f'},
                  {('', 'current'): lambda c, a: [c.current], ('urn:f', 'ctx'): lambda c, a: '%s|%d|%d|%d' % (c.node.key, c.position, c.size, len(a))},
                  current=a2)
    for e, exp in [('current()', ['/1/2']), ('f:ctx()', '/1/0|2|5|0'), ('b[2]/f:ctx(1, 2)' if False else 'f:ctx(1, 2)', '/1/0|2|5|2'),
                   ('//b[f:ctx() = "/1/0/2|2|3|0"]', ['/1/0/2']), ('$v/@n + position() + last()', 9), ('//a[@n = current()/@n]', ['/1/2'])]:
        COUNT[0] += 1
        check_value('ctx ' + e, evaluate(parse(e), ctx), exp)


def test_patterns(d):
    ctx = Context(d.root, namespaces=NS, functions={('', 'key'): lambda c, a: [n for n in c.node.doc.nodes(False, False)
                                                                                if n.kind == 'element' and any(x.local == 'n' and x.uri == '' and x.value == rx.to_string(a[1]) for x in n.attributes)]})
    nodes = d.nodes(True, True)

    def m(p):
        pa = parse_pattern(p)
        return [n.key for n in nodes if rx.pattern_matches(pa, n, ctx)]
    for p, exp in [
        ('/', ['/']), ('*', ALL_EL), ('node()', ['/0'] + [k for k in [n.key for n in d.nodes(False, False)] if k not in ('/', '/0')]),
        ('text()', ['/1/0/0', '/1/0/1/0', '/1/0/2/0', '/1/0/4/0', '/1/2/0/0', '/1/3']), ('comment()', ['/0', '/1/0/3']),
        ('processing-instruction()', ['/1/1', '/2']), ('processing-instruction("pi")', ['/1/1']), ("processing-instruction('end')", ['/2']),
        ('a', ['/1/0', '/1/2', '/1/4']), ('b', ['/1/0/1', '/1/0/2', '/1/0/4']), ('p:b', ['/1/2/0']), ('p:*', ['/1/2/0']), ('d:*', ['/1/2/1', '/1/2/1/0']),
        ('doc/a', ['/1/0', '/1/2', '/1/4']), ('/doc', ['/1']), ('/a', []), ('/doc/a/b', ['/1/0/1', '/1/0/2', '/1/0/4']), ('doc//b', ['/1/0/1', '/1/0/2', '/1/0/4']),
        ('//b', ['/1/0/1', '/1/0/2', '/1/0/4']), ('/*', ['/1']), ('/node()', ['/0', '/1', '/2']), ('/comment()', ['/0']), ('//d:e', ['/1/2/1/0']), ('a//d:e', ['/1/2/1/0']),
        ('a/d:e', []), ('a/*/d:e', ['/1/2/1/0']), ('@*', [n.key for n in nodes if n.kind == 'attribute']), ('@n', ['/1/0/@{}n', '/1/2/@{}n', '/1/4/@{}n']),
        ('@p:*', ['/1/2/@{urn:p}m']), ('@xml:lang', ['/1/@{%s}lang' % XML, '/1/2/0/@{%s}lang' % XML]), ('a/@id', ['/1/0/@{}id', '/1/2/@{}id', '/1/4/@{}id']),
        ('doc/@id', ['/1/@{}id']), ('attribute::n', ['/1/0/@{}n', '/1/2/@{}n', '/1/4/@{}n']), ('child::a', ['/1/0', '/1/2', '/1/4']), ('@node()', [n.key for n in nodes if n.kind == 'attribute']),
        ('a[1]', ['/1/0']), ('a[2]', ['/1/2']), ('a[last()]', ['/1/4']), ('b[1]', ['/1/0/1']), ('b[last()]', ['/1/0/4']), ('b[position() > 1]', ['/1/0/2', '/1/0/4']),
        ('*[1]', ['/1', '/1/0', '/1/0/1', '/1/2/0', '/1/2/1/0']), ('node()[1]', ['/0', '/1/0', '/1/0/0', '/1/0/1/0', '/1/0/2/0', '/1/0/4/0', '/1/2/0', '/1/2/0/0', '/1/2/1/0']),
        ('a[@n > 1]', ['/1/2', '/1/4']), ('a[@n > 1][1]', ['/1/2']), ('a[1][@n > 1]', []), ('a[b]', ['/1/0']), ('a[not(*)]', ['/1/4']), ('b[. = 2]', ['/1/0/2']),
        ('@*[1]', ['/1/@{}id', '/1/0/@{}id', '/1/2/@{}id', '/1/2/0/@{%s}lang' % XML, '/1/4/@{}id']), ('@*[last()]', ['/1/@{%s}lang' % XML, '/1/0/@{}n', '/1/2/@{urn:p}m', '/1/2/0/@{%s}lang' % XML, '/1/4/@{}n']),
        ('@n[. = 2]', ['/1/2/@{}n']), ('text()[1]', ['/1/0/0', '/1/0/1/0', '/1/0/2/0', '/1/0/4/0', '/1/2/0/0', '/1/3']), ('text()[2]', []), ('a/text()[1]', ['/1/0/0']),
        ('id("a2")', ['/1/2']), ("id('a1 a3')", ['/1/0', '/1/4']), ('id("a1")/b', ['/1/0/1', '/1/0/2', '/1/0/4']), ('id("D")//b[2]', ['/1/0/2']), ('id("a1")/@n', ['/1/0/@{}n']),
        ('key("k", "2")', ['/1/2']), ('key("k", "1")/b[last()]', ['/1/0/4']), ('key("k", "10")//node()', []),
        ('a | b', ['/1/0', '/1/0/1', '/1/0/2', '/1/0/4', '/1/2', '/1/4']), ('/ | @n | text()[.="tail"]', ['/', '/1/0/@{}n', '/1/2/@{}n', '/1/3', '/1/4/@{}n']),
        ('a//node()', ['/1/0/0', '/1/0/1', '/1/0/1/0', '/1/0/2', '/1/0/2/0', '/1/0/3', '/1/0/4', '/1/0/4/0', '/1/2/0', '/1/2/0/0', '/1/2/1', '/1/2/1/0']),
        ('//node()', [k for k in [n.key for n in d.nodes(False, False)] if k != '/']), ('//@n', ['/1/0/@{}n', '/1/2/@{}n', '/1/4/@{}n']),
        ('doc/a[2]/*[2]/*', ['/1/2/1/0']), ('a[2]//*', ['/1/2/0', '/1/2/1', '/1/2/1/0']), ('*[lang("en-GB")]', ['/1/2/0']), ('*[self::a or self::b][last()]', ['/1/0/4', '/1/4']),
        ('a[position() = 2]/p:b | a[3]', ['/1/2/0', '/1/4']),
    ]:
        COUNT[0] += 1
        try:
            got = m(p)
        except Exception as ex:   # noqa
            fail('pattern %r raised %s: %s' % (p, type(ex).__name__, ex))
            continue
        if got != exp:
            fail('pattern %r: matched %r, expected %r' % (p, got, exp))
    # namespace nodes are matched by no pattern built from child/attribute steps except via //... none
    for p in ['node()', '*', '@*', '//node()', 'text()']:
        COUNT[0] += 1
        if any(k.startswith('/1/ns:') for k in m(p)):
            fail('pattern %r matched a namespace node' % p)
    for p in ['.', '..', 'a/..', 'a/.', 'descendant::a', 'self::a', 'parent::a', 'ancestor::a', 'following::a', 'namespace::a', 'descendant-or-self::node()/a',
              '/descendant-or-self::node()/a', 'id(x)', 'id(1)', 'id("a", "b")', 'id()', 'key("k")', 'key("k", 1)', 'key("k", "v", "w")', 'key("k", $v)', 'key($k, "v")',
              'a/id("x")', 'a//id("x")', 'id("x")[1]', 'key("a","b")[1]', '(a)', '(a)/b', '(a|b)', 'a|', '|a', 'a||b', '$x', '$x/a', '1', '"a"', 'a = b', 'a + 1', '-a', 'a and b',
              'foo("x")', 'foo()', 'p:id("x")', 'count(a)', 'a/', '/a/', '//', 'a//', '///a', 'a[', 'a[]', 'a]', 'text("x")', '@', '@@a', 'a:b:c', '', ' ', 'child::', '::a', 'a/(b)',
              'id("x")/..', 'id("x")/descendant::a', '/..', '/.', 'a[1', 'processing-instruction(x)', 'id("a") | ..', 'a | .']:
        COUNT[0] += 1
        try:
            parse_pattern(p)
            fail('pattern accepted: %r' % p)
        except XPathSyntaxError:
            pass
        except Exception as ex:   # noqa
            fail('pattern %r raised %s' % (p, type(ex).__name__))
    for p in ['a', 'a/b', '/', '//a', '/a', '/a//b/c', 'a//b', '*', '@*', 'p:*', '@p:*', 'node()', 'text()', 'comment()', 'processing-instruction()', 'processing-instruction("x")',
              'child::a', 'attribute::a', 'child::node()', 'attribute::*', 'a[1]', 'a[b/../c = descendant::d][2]', 'a[.]', 'a[..]', 'a[$x]', 'a[id("q")]', 'a[f()]', 'id("x")', 'id("x")/a', 'id("x")//a',
              "key('k', 'v')", 'key("k","v")/a/@b', 'key ( "k" , "v" ) // a', 'id ( "x" )', 'a|b', 'a | b | /', ' a ', 'a / b', 'a // b', 'child :: a', '@ a' if False else '@a', 'a[1][2]', 'id("x")/a[1]',
              'a/@b', 'a//@b', '//@b', '/@b', '@b[1]', 'text()[1]', 'a/text()', 'a/node()', '/node()', '/*', '/text()', 'and', 'div/mod', 'or[and]', 'id', 'key', 'id/key', 'text', 'node/comment']:
        COUNT[0] += 1
        try:
            pa = parse_pattern(p)
            if parse_pattern(rx.unparse(pa)) != pa:
                fail('pattern unparse round trip %r -> %r' % (p, rx.unparse(pa)))
        except XPathSyntaxError as ex:
            fail('valid pattern rejected: %r (%s)' % (p, ex))
    for p, exp in [('a', [0.0]), ('p:a', [0.0]), ('@a', [0.0]), ('@p:a', [0.0]), ('child::a', [0.0]), ('attribute::a', [0.0]), ('processing-instruction("x")', [0.0]),
                   ('child::processing-instruction("x")', [0.0]), ('p:*', [-0.25]), ('@p:*', [-0.25]), ('attribute::p:*', [-0.25]), ('*', [-0.5]), ('@*', [-0.5]), ('node()', [-0.5]),
                   ('text()', [-0.5]), ('comment()', [-0.5]), ('processing-instruction()', [-0.5]), ('child::node()', [-0.5]), ('attribute::node()', [-0.5]), ('@node()', [-0.5]),
                   ('/', [0.5]), ('/a', [0.5]), ('//a', [0.5]), ('a/b', [0.5]), ('a//b', [0.5]), ('a[1]', [0.5]), ('*[1]', [0.5]), ('@*[1]', [0.5]), ('node()[1]', [0.5]), ('id("x")', [0.5]),
                   ('key("a","b")', [0.5]), ('id("x")/a', [0.5]), ('/*', [0.5]), ('/@a', [0.5]), ('p:*[1]', [0.5]), ('text()[1]', [0.5]),
                   ('a | p:* | * | a/b | node()', [0.0, -0.25, -0.5, 0.5, -0.5]), ('/ | a', [0.5, 0.0])]:
        COUNT[0] += 1
        got = [pr for _, pr in rx.pattern_alternatives(parse_pattern(p))]
        if got != exp:
            fail('default priority %r: %r != %r' % (p, got, exp))
    COUNT[0] += 1
    alts = rx.pattern_alternatives(parse_pattern('a | b[1]'))
    if [rx.unparse(a) for a, _ in alts] != ['a', 'b[1]'] or not rx.pattern_matches(alts[1][0], d.by_key('/1/0/1'), ctx) \
            or rx.pattern_matches(alts[0][0], d.by_key('/1/0/1'), ctx):
        fail('pattern_alternatives split')


def test_extensions(d):
    table(d, '/', [
        ('set:difference(//b, //b[2])', ['/1/0/1', '/1/0/4']), ('set:difference(//b, //a)', ['/1/0/1', '/1/0/2', '/1/0/4']),
        ('set:difference(//b, //b)', []), ('set:difference(/.., //b)', []), ('set:intersection(//a/*, //b)', ['/1/0/1', '/1/0/2', '/1/0/4']),
        ('set:intersection(//a, //b)', []), ('set:intersection(//b[position() < 3], //b[position() > 1])', ['/1/0/2']),
        ('set:distinct(//a/@n | //b)', ['/1/0/@{}n', '/1/0/2', '/1/0/4', '/1/4/@{}n']), ('set:distinct(/..)', []),
        ('set:distinct(//b/text() | //b)', ['/1/0/1', '/1/0/2', '/1/0/4']), ('count(set:distinct(//*))', 7),
        ('set:has-same-node(//b, //a/*)', True), ('set:has-same-node(//b, //a)', False), ('set:has-same-node(/.., /..)', False),
        ('set:leading(//b, //b[3])', ['/1/0/1', '/1/0/2']), ('set:leading(//b, //b[1])', []), ('set:leading(//b, /..)', ['/1/0/1', '/1/0/2', '/1/0/4']),
        ('set:leading(//b, //a[2])', []), ('set:leading(//b, //b[position() > 1])', ['/1/0/1']), ('set:leading(//b | //a, //a[2] | //b[3])', ['/1/0', '/1/0/1', '/1/0/2']),
        ('set:trailing(//b, //b[1])', ['/1/0/2', '/1/0/4']), ('set:trailing(//b, //b[3])', []), ('set:trailing(//b, /..)', ['/1/0/1', '/1/0/2', '/1/0/4']),
        ('set:trailing(//b, //a[1])', []), ('set:trailing(//b, //b[position() > 1])', ['/1/0/4']),
        ('math:min(//b)', 1), ('math:max(//b)', 3), ('math:max(//a/@n)', 10), ('math:min(//a/@n | //b)', 1), ('math:min(/..)', NaN), ('math:max(/..)', NaN),
        ('math:min(//a)', NaN), ('math:max(//b | //a)', NaN), ('math:highest(//b)', ['/1/0/4']), ('math:lowest(//b)', ['/1/0/1']),
        ('math:lowest(//b | //a/@n)', ['/1/0/@{}n', '/1/0/1']), ('math:highest(//a/@n | //b)', ['/1/4/@{}n']), ('math:highest(/..)', []),
        ('math:highest(//b | //a)', []), ('math:lowest(//a)', []), ('math:abs(-1.5)', 1.5), ('math:abs(2)', 2), ('math:abs(-0)', 0.0), ('math:abs(0 div 0)', NaN),
        ('math:abs(-1 div 0)', INF), ('math:abs("-3")', 3), ('math:abs(//b)', 1),
        ('str:padding(5)', '     '), ('str:padding(0)', ''), ('str:padding(5, "ab")', 'ababa'), ('str:padding(4, "ab")', 'abab'), ('str:padding(1, "abc")', 'a'),
        ('str:padding(3, "")', ''), ('str:padding(2, "\U0001F600x")', '\U0001F600x'), ('str:padding("3", "-")', '---'),
        ('str:align("ab", "------")', 'ab----'), ('str:align("ab", "------", "left")', 'ab----'), ('str:align("ab", "------", "right")', '----ab'),
        ('str:align("ab", "------", "center")', '--ab--'), ('str:align("abc", "------", "center")', '-abc--'), ('str:align("ab", "-----", "center")', '-ab--'),
        ('str:align("ab", "123456", "bogus")', 'ab3456'), ('str:align("ab", "123456", "right")', '1234ab'), ('str:align("ab", "123456", "center")', '12ab56'),
        ('str:align("abcdef", "---")', 'abc'), ('str:align("abc", "---", "right")', 'abc'), ('str:align("", "---", "center")', '---'), ('str:align("a", "")', ''),
        ('str:align("", "")', ''), ('str:concat(//b)', '123'), ('str:concat(/..)', ''), ('str:concat(//a/@id)', 'a1a2a3'), ('str:concat(//a[1] | //b)', 't1123123'),
        ('exsl:object-type(1)', 'number'), ('exsl:object-type("a")', 'string'), ('exsl:object-type(1 = 1)', 'boolean'), ('exsl:object-type(//b)', 'node-set'),
        ('exsl:object-type(/..)', 'node-set'), ('exsl:object-type(count(//b))', 'number'), ('exsl:object-type(string(//b))', 'string'),
        ('xalan:difference(//b, //b[2])', ['/1/0/1', '/1/0/4']), ('xalan:intersection(//a/*, //b)', ['/1/0/1', '/1/0/2', '/1/0/4']),
        ('xalan:distinct(//a/@n | //b)', ['/1/0/@{}n', '/1/0/2', '/1/0/4', '/1/4/@{}n']), ('xalan:hasSameNodes(//b, //a/b)', True),
        ('xalan:hasSameNodes(//b, //a/*)', False), ('xalan:hasSameNodes(/.., /..)', True), ('xalan:hasSameNodes(//b, //b[1])', False),
        ('count(set:difference(//node(), //*))', 10), ('set:leading(//b, //b[2])/following-sibling::*[1]', ['/1/0/2']),
    ])
    r = d.root
    for e in ['set:difference(//b)', 'set:distinct()', 'math:min()', 'math:abs()', 'str:padding()', 'str:align("a")', 'str:concat()', 'exsl:object-type()',
              'set:nosuch(//b)', 'math:sqrt(4)', 'str:tokenize("a b")', 'exsl:node-set(1)', 'xalan:nodeset(1)', 'str:padding(1, "a", "b")']:
        expect_error(e, XPathStaticError, r)
    for e in ['set:difference(1, //b)', 'set:distinct("a")', 'math:min(1)', 'math:highest("a")', 'str:concat("a")', 'set:leading(//b, 1)', 'xalan:hasSameNodes(1, 2)']:
        expect_error(e, XPathDynamicError, r)
    for e in ['str:padding(-1)', 'str:padding(1.5)', 'str:padding(0 div 0)', 'str:padding(1 div 0)', 'str:align("abcd", "--", "right")', 'str:align("abcd", "--", "center")']:
        expect_error(e, rx.XPathUnspecified, r)
    dz = model.parse_document('<r><v>0</v><v>-0</v><v>1</v></r>')
    expect_error('math:min(//v)', rx.XPathUnspecified, dz.root)
    table(dz, '/', [('math:max(//v)', 1), ('math:lowest(//v)', ['/0/0', '/0/1']), ('math:min(//v[position() != 1])', -0.0)])


def test_multidoc(d):
    d2 = model.parse_document('<x><y>1</y><y>9</y></x>')
    d0 = model.parse_document('<z><y>5</y></z>')   # created last: sorts last
    ys = [d0.by_key('/0/0'), d2.by_key('/0/1'), d2.by_key('/0/0')]
    v = {'o': ys, 'r2': [d2.root], 'r0': [d0.root], 'bs': [d.by_key('/1/0/1'), d.by_key('/1/0/2')]}
    node = d.by_key('/1/0')
    for e, exp in [('$o', [(d2.docnum, '/0/0'), (d2.docnum, '/0/1'), (d0.docnum, '/0/0')]),
                   ('$o | b[1]', [(d.docnum, '/1/0/1'), (d2.docnum, '/0/0'), (d2.docnum, '/0/1'), (d0.docnum, '/0/0')]),
                   ('($o | b)[last()]', [(d0.docnum, '/0/0')]), ('($o | b)[1]', [(d.docnum, '/1/0/1')]), ('$o[1]', [(d2.docnum, '/0/0')]),
                   ('$o/..', [(d2.docnum, '/0'), (d0.docnum, '/0')]), ('$o/ancestor::node()[last()]', [(d2.docnum, '/'), (d0.docnum, '/')]),
                   ('$r2//y | $r0//y | //b[1]', [(d.docnum, '/1/0/1'), (d2.docnum, '/0/0'), (d2.docnum, '/0/1'), (d0.docnum, '/0/0')]),
                   ('$r2/x/y[. > current-less]' if False else '$r2/x/y[. > 1]', [(d2.docnum, '/0/1')]), ('$o/following::y', [(d2.docnum, '/0/1')]),
                   ('$o/preceding::y', [(d2.docnum, '/0/0')]), ('$o[. = //b]', []), ('$o[. = $bs]', [(d2.docnum, '/0/0')]), ('$r0/descendant::y | $r2', [(d2.docnum, '/'), (d0.docnum, '/0/0')])]:
        COUNT[0] += 1
        got = ev(e, node, variables=v)
        g = [(n.doc.docnum, n.key) for n in got]
        if g != exp:
            fail('multidoc %s: %r != %r' % (e, g, exp))
    table(d, '/1/0', [('sum($o)', 15), ('count($o | //b)', 6), ('string($o)', '1'), ('$o = 9', True), ('$o = b', True), ('count($r2 | /)', 2),
                      ('id("a2") | $r2/x', None)][:-1], variables=v)
    COUNT[0] += 1
    # id() uses the document of the context node
    dd = model.parse_document('<!DOCTYPE q [<!ATTLIST q id ID #IMPLIED>]><q id="a2"/>')
    got = evaluate(parse('$r/q/self::*[id("a2")] | id("a2")'), Context(d.root, variables={'r': [dd.root]}))
    if [(n.doc.docnum, n.key) for n in got] != [(d.docnum, '/1/2'), (dd.docnum, '/0')]:
        fail('id() per-document: %r' % got)


def test_metamorphic():
    """Relations that must hold whatever the operands are."""
    from .tools import xpath_vs_libxml2 as gen
    rnd = random.Random(20260926)
    n_checked = 0
    for round_ in range(30):
        while True:
            text = gen.DocGen(rnd).document()
            doc = model.parse_document(text)
            if len(doc.nodes(True, False)) >= 12:
                break
        g = gen.ExprGen(rnd, doc)
        nodes = doc.nodes(True, True)
        rootctx = Context(doc.root, 1, 1, {}, gen.NSMAP, {})
        variables = dict((name, evaluate(parse(sel), rootctx)) for name, sel in gen.VAR_DEFS)
        for _ in range(30):
            node = rnd.choice(nodes)
            pos = rnd.randint(1, 3)
            size = pos + rnd.randint(0, 2)
            A, B = g.nodeset(2, True), g.nodeset(2, True)
            a, b = g.boolean(2), g.boolean(2)
            n, m = g.number(2), g.number(2)
            s, t = g.string(2), g.string(2)
            x = g.any(2)

            def E(expr):
                return evaluate(parse(expr), Context(node, pos, size, variables, gen.NSMAP, {}))

            def same(e1, e2):
                v1, v2 = E(e1), E(e2)
                COUNT[0] += 1
                if isinstance(v1, list):
                    ok = isinstance(v2, list) and keys(v1) == keys(v2)
                elif isinstance(v1, float):
                    ok = isinstance(v2, float) and same_number(v1, v2)
                else:
                    ok = type(v1) is type(v2) and v1 == v2
                if not ok:
                    fail('metamorphic: %s  <>  %s   (%r vs %r) ctx %s doc %s' % (e1, e2, v1, v2, node.key, text))
            same('(%s) | (%s)' % (A, B), '(%s) | (%s)' % (B, A))
            same('count((%s) | (%s))' % (A, B), 'count((%s) | (%s))' % (B, A))
            same('(%s) | (%s)' % (A, A), '(%s)' % A)
            # inclusion-exclusion; A and B frozen in variables because a predicate changes the context
            variables['A'], variables['B'] = E(A), E(B)
            same('count($A | $B) + count($A[count(. | $B) = count($B)])', 'count($A) + count($B)')
            same('$A[count(. | $B) = count($B)]', '$B[count(. | $A) = count($A)]')
            same('$A | $B', '(%s) | (%s)' % (A, B))
            same('not((%s) and (%s))' % (a, b), 'not(%s) or not(%s)' % (a, b))
            same('not((%s) or (%s))' % (a, b), 'not(%s) and not(%s)' % (a, b))
            same('not(not(%s))' % x, 'boolean(%s)' % x)
            same('boolean(%s)' % A, 'count(%s) > 0' % A)
            nv = E(n)
            if nv == nv and nv not in (INF, -INF):
                # finite numbers survive number -> string -> number ('Infinity' is not a Number: NaN)
                same('string(number(string(%s)))' % n, 'string(%s)' % n)
                same('number(string(%s)) = (%s)' % (n, n), 'true()')
            else:
                same('string(number(string(%s)))' % n, '"NaN"')
            same('string(string(%s))' % x, 'string(%s)' % x)
            same('number(number(%s))' % x, 'number(%s)' % x)
            same('(%s) + (%s)' % (n, m), '(%s) + (%s)' % (m, n))
            same('(%s) * (%s)' % (n, m), '(%s) * (%s)' % (m, n))
            same('(%s) - (%s)' % (n, m), '(%s) + -(%s)' % (n, m))
            same('-(-(%s))' % n, 'number(%s)' % n)
            same('(%s) = (%s)' % (A, B), '(%s) = (%s)' % (B, A))
            same('(%s) != (%s)' % (A, B), '(%s) != (%s)' % (B, A))
            same('(%s) < (%s)' % (A, n), '(%s) > (%s)' % (n, A))
            same('(%s) <= (%s)' % (x, n), '(%s) >= (%s)' % (n, x))
            same('(%s) = (%s)' % (n, m), 'not((%s) != (%s))' % (n, m))
            same('(%s) = (%s)' % (s, t), 'not((%s) != (%s))' % (s, t))
            same('(%s) < (%s)' % (n, m), '(%s) > (%s)' % (m, n))
            same('concat(%s, %s)' % (s, t), 'concat(substring-before(concat(%s, "\x01", %s), "\x01"), substring-after(concat(%s, "\x01", %s), "\x01"))' % (s, t, s, t))
            same('string-length(concat(%s, %s))' % (s, t), 'string-length(%s) + string-length(%s)' % (s, t))
            same('starts-with(concat(%s, %s), %s)' % (s, t, s), 'true()')
            same('contains(concat(%s, %s), %s)' % (s, t, t), 'true()')
            same('substring(%s, 1)' % s, 'string(%s)' % s)
            same('concat(substring(%s, 1, 2), substring(%s, 3))' % (s, s), 'string(%s)' % s)
            same('normalize-space(normalize-space(%s))' % s, 'normalize-space(%s)' % s)
            same('translate(%s, "abc", "abc")' % s, 'string(%s)' % s)
            same('floor(%s) <= (%s) or (%s) != (%s)' % (n, n, n, n), 'true()')
            same('ceiling(%s)' % n, '-floor(-(%s))' % n)
            same('round(%s)' % n, 'round(round(%s))' % n)
            same('(%s)[1]' % A, '(%s)[position() = 1]' % A)
            same('(%s)[last()]' % A, '(%s)[position() = last()]' % A)
            same('count((%s)[true()])' % A, 'count(%s)' % A)
            same('(%s)[%s]' % (A, a), '(%s)[boolean(%s)]' % (A, a))
            same('(%s)/self::node()' % A, '(%s)' % A)
            same('(%s)/.' % A, '(%s)' % A)
            same('(%s)//.' % A, '(%s)/descendant-or-self::node()' % A)
            same('(%s)/..' % A, '(%s)/parent::node()' % A)
            same('count(%s)' % A, 'count((%s)[1]) + count((%s)[position() > 1])' % (A, A))
            same('sum((%s)/@i[number() = number()])' % A, 'sum((%s)/@i[number() = number()][1]) + sum((%s)/@i[number() = number()][position() > 1])' % (A, A)) if False else None
            same('(%s)/ancestor::node()' % A, '(%s)/parent::node()/ancestor-or-self::node()' % A)
            same('(%s)/descendant::node()' % A, '(%s)/child::node()/descendant-or-self::node()' % A)
            same('(%s)/following-sibling::node()/preceding-sibling::node() | (%s)[following-sibling::node()]' % (A, A),
                 '(%s)/following-sibling::node()/preceding-sibling::node()' % A)
            same('count(descendant-or-self::node() | ancestor::node() | following::node() | preceding::node())'
                 ' - count(self::node()[count(. | ../@* | ../namespace::*) = count(../@* | ../namespace::*)])',
                 'count(//node()) + 1')
            same('count(ancestor::node()) + 1', 'count(ancestor-or-self::node())')
            same('preceding-sibling::node()[1]', '(preceding-sibling::node())[last()]')
            same('ancestor::node()[1]', '..')
            same('preceding::node()[1]', '(preceding::node())[last()]')
            same('following::node()[1]', '(following::node())[1]')
            same('ancestor-or-self::node()[last()]', '/')
            same('string(%s) = string(%s)' % (A, A), 'true()')
            same('position()', str(pos))
            same('last()', str(size))
            # unparse is meaning-preserving
            for src in (A, a, n, s):
                ast = parse(src)
                try:
                    u = rx.unparse(ast)
                except ValueError:
                    continue
                COUNT[0] += 1
                if parse(u) != ast:
                    fail('unparse round trip %r -> %r' % (src, u))
            n_checked += 1
    return n_checked


def test_number_roundtrip():
    rnd = random.Random(7)
    import struct
    for i in range(20000):
        if i % 4 == 0:
            x = struct.unpack('<d', struct.pack('<Q', rnd.getrandbits(64)))[0]
        elif i % 4 == 1:
            x = rnd.uniform(-1e6, 1e6)
        elif i % 4 == 2:
            x = rnd.randint(-10 ** 6, 10 ** 6) / float(10 ** rnd.randint(0, 9))
        else:
            x = float(rnd.randint(-2 ** 60, 2 ** 60))
        s = rx.number_to_string(x)
        COUNT[0] += 1
        if x != x or x in (INF, -INF):
            continue
        if 'e' in s or 'E' in s or s.startswith('.') or s.endswith('.') or s.startswith('-.') or (s != '0' and s.lstrip('-').startswith('0') and not s.lstrip('-').startswith('0.')):
            fail('number_to_string(%r) = %r is not in Rec 4.2 form' % (x, s))
        if rx.string_to_number(s) != x:
            fail('string(number) does not round-trip: %r -> %r' % (x, s))
        if abs(x) < 2 ** 53 and x != int(x):
            # shortest: dropping the last digit must not round-trip
            t = s[:-1]
            if t and t[-1] != '.' and rx.string_to_number(t) == x:
                fail('number_to_string(%r) = %r is not the shortest' % (x, s))


def perf(d):
    import time
    exprs = ['//b[2]', 'count(//node())', '/doc/a[@n > 1]/@id', '//a[b = 2]/b[last()]', 'string(//a[2]/p:b)', 'sum(//a/@n) div count(//b)',
             '//*[not(*)][not(text())]', '//b/preceding::*[1] | //a/following::node()[2]', 'concat(name(//*[5]), "-", substring(string(/), 2, 3))',
             'count(//namespace::*) + count(//@*)', '//a[position() = last()]/preceding-sibling::a[1]/@n * 2', 'normalize-space(translate(//a[1], "t", " "))',
             '//text()[. > 2]/ancestor::*[1]', 'id("a1 a3")/b[. mod 2 = 1]', '(//b | //a)[last()]/@*', '//*[lang("en")][last()]']
    asts = [parse(e) for e in exprs]
    ctx = Context(d.by_key('/1/2'), 1, 1, {}, NS, {})
    t0 = time.perf_counter()
    n = 0
    for _ in range(200):
        for a in asts:
            evaluate(a, ctx)
            n += 1
    t1 = time.perf_counter()
    for _ in range(200):
        for e in exprs:
            parse(e)
    t2 = time.perf_counter()
    return 1000.0 * (t1 - t0) / n, 1000.0 * (t2 - t1) / n


def main():
    d = test_model()
    test_axes(d)
    test_functions(d)
    test_syntax()
    test_errors(d)
    test_patterns(d)
    test_extensions(d)
    test_multidoc(d)
    test_number_roundtrip()
    nmeta = test_metamorphic()
    ev_ms, parse_ms = perf(d)
    print('%d checks (%d metamorphic context samples), %d failures' % (COUNT[0], nmeta, len(FAILS)))
    print('performance on the %d-node test document: evaluate %.3f ms, parse %.3f ms per expression'
          % (len(d.nodes(True, True)), ev_ms, parse_ms))
    return 1 if FAILS else 0


if __name__ == '__main__':
    sys.exit(main())
