"""Self-test of vf.ref_xslt.

    cd /verif/py && python3-vt -m vf.test_ref_xslt      (exit 0 = all passed)

Worked examples from the XSLT 1.0 Recommendation (sections 3.4, 5-7, 9-12) and
hand-derived cases for every supported instruction and the tricky interactions.
Expected results were derived by hand from the Recommendation text, never by
running an implementation.  Expected trees are written as XML fragments and
compared in the canonical event form of ref_xslt.dump().
"""
import sys
import time

from . import model
from . import ref_xslt as X
from .ref_xslt import urljoin, XSLTDynamicError, XSLTStaticError, XSLTUnsupported

FAILS = []
COUNT = [0]
XSLNS = 'xmlns:xsl="http://www.w3.org/1999/XSL/Transform"'


def fail(msg):
    FAILS.append(msg)
    if len(FAILS) <= 80:
        print('FAIL: ' + msg)


def sheet(body, attrs=''):
    return '<xsl:stylesheet version="1.0" %s %s>%s</xsl:stylesheet>' % (XSLNS, attrs, body)


def frag_events(fragment):
    d = model.parse_document('<W__>' + fragment + '</W__>')
    return X.model_to_events(d.root)[0][3]


def make_resolver(files):
    def res(href, base):
        return files.get(urljoin(base or '', href))
    return res


def transform(xsl, xml, params=None, files=None, messages=None, full=False, doc_uri='mem:/doc.xml'):
    files = dict(files or {})
    res = make_resolver(files)
    if not full:
        xsl = sheet(xsl)
    s = X.compile_stylesheet(xsl, 'mem:/main.xsl', res)
    files.setdefault('mem:/main.xsl', xsl)
    d = model.parse_document(xml, doc_uri)
    return X.transform(s, d, params, res, messages)


def check(label, xsl, xml, expected, params=None, files=None, full=False, recoveries=None,
          messages=None, doc_uri='mem:/doc.xml'):
    """expected: XML fragment of the result tree's children."""
    COUNT[0] += 1
    try:
        msgs = []
        r = transform(xsl, xml, params, files, msgs, full, doc_uri)
        got = X.dump(r)
    except Exception as e:                                       # noqa
        fail('%s: raised %s: %s' % (label, type(e).__name__, e))
        return None
    exp = frag_events(expected)
    if got != exp:
        fail('%s:\n   expected %r\n   got      %r' % (label, exp, got))
    if recoveries is not None and sorted(r.recoveries) != sorted(recoveries):
        fail('%s: recoveries expected %r got %r' % (label, recoveries, r.recoveries))
    if messages is not None and msgs != messages:
        fail('%s: messages expected %r got %r' % (label, messages, msgs))
    return r


def check_error(label, exc, xsl, xml='<doc/>', params=None, files=None, full=False):
    COUNT[0] += 1
    try:
        r = transform(xsl, xml, params, files, None, full)
    except exc:
        return
    except Exception as e:                                       # noqa
        fail('%s: expected %s, raised %s: %s' % (label, exc.__name__, type(e).__name__, e))
        return
    fail('%s: expected %s, got result %r' % (label, exc.__name__, X.dump(r)))


def T(match, body, extra=''):
    return '<xsl:template match="%s" %s>%s</xsl:template>' % (match, extra, body)


# ---------------------------------------------------------------------------
def test_builtin_rules():
    xml = '<doc a="1"><!--c--><?pi d?>t1<e b="2">t2<f>t3</f></e>t4</doc>'
    # 5.8: only text of elements comes out; attributes are not selected by node()
    check('builtin-all', '', xml, 't1t2t3t4')
    # built-in rule for attributes copies the value when they are selected
    check('builtin-attr', T('doc', '<xsl:apply-templates select="@*|e/@b"/>'), xml, '12')
    # built-in rules for comments / PIs do nothing even when selected
    check('builtin-comment-pi', T('doc', '<xsl:apply-templates select="comment()|processing-instruction()"/>x'),
          xml, 'x')
    # modes: built-in element rule continues in the same mode
    check('builtin-mode',
          T('/', '<xsl:apply-templates mode="m"/>') + T('f', '[<xsl:value-of select="."/>]', 'mode="m"')
          + T('f', 'WRONG'), xml, 't1t2[t3]t4')
    # 5.8 + 11.6: built-in rules do not pass parameters on
    check('builtin-no-params',
          T('/', '<xsl:apply-templates><xsl:with-param name="p" select="\'passed\'"/></xsl:apply-templates>')
          + T('f', '<xsl:param name="p" select="\'default\'"/>[<xsl:value-of select="$p"/>]')
          + T('text()', ''), xml, '[default]')
    # ... but a param is passed to a directly selected template
    check('direct-params',
          T('/', '<xsl:apply-templates select="doc/e/f"><xsl:with-param name="p" select="\'passed\'"/></xsl:apply-templates>')
          + T('f', '<xsl:param name="p" select="\'default\'"/>[<xsl:value-of select="$p"/>]'),
          xml, '[passed]')
    # position()/last() in the template matching the root at start-up: list of one
    check('root-position', T('/', '<xsl:value-of select="position()"/>/<xsl:value-of select="last()"/>'),
          xml, '1/1')
    # namespace nodes: built-in rule does nothing
    check('builtin-namespace', T('doc', '<xsl:apply-templates select="namespace::*"/>.'), xml, '.')


def test_conflict_resolution():
    xml = '<doc xmlns:p="urn:p"><a/><p:a/><p:c/><b x="1"/><?t d?></doc>'
    ns = 'xmlns:p="urn:p"'
    # default priorities 5.5: QName 0, NCName:* -0.25, * / node() -0.5, others 0.5
    body = (T('*', 'star(<xsl:value-of select="name()"/>)') + T('p:*', 'pstar') + T('p:a', 'pa')
            + T('a', 'a') + T('processing-instruction()', 'pi') + T('doc', '<xsl:apply-templates/>'))
    check('default-priorities', sheet(body, ns), xml, 'apapstarstar(b)pi', full=True, recoveries=[])
    # processing-instruction(lit) has priority 0, processing-instruction() -0.5
    check('pi-priority', T('processing-instruction()', 'any') + T("processing-instruction('t')", 'lit')
          + T("processing-instruction('u')", 'other'), xml, 'lit')
    # a pattern with a predicate or several steps has 0.5
    check('priority-0.5', T('b', 'plain') + T('b[@x]', 'pred'), '<doc><b x="1"/><b/></doc>',
          'predplain')
    check('priority-0.5-path', T('doc/b', 'path') + T('b', 'plain'), '<doc><b/></doc>', 'path')
    # explicit priority
    check('explicit-priority', T('b', 'low', 'priority="-1"') + T('*', 'star') + T('doc', '<xsl:apply-templates/>'),
          '<doc><b/></doc>', 'star')
    check('explicit-priority-2', T('b', 'hi', 'priority="0.6"') + T('doc/b', 'path'),
          '<doc><b/></doc>', 'hi')
    # union: each alternative has its own default priority
    check('union-priorities', T('a|doc/b', 'U') + T('a', 'A', 'priority="0.25"') + T('b', 'B', 'priority="0.25"')
          + T('doc', '<xsl:apply-templates/>'), '<doc><a/><b/></doc>', 'AU')
    # same precedence and priority: error, recovery = last in stylesheet
    check('conflict-last', T('b', 'first') + T('b', 'second'), '<doc><b/></doc>', 'second',
          recoveries=['5.5-template-conflict'])
    check('conflict-last-2', T('b', 'first', 'priority="0.5"') + T('doc/b', 'second') + T('b[1]', 'third'),
          '<doc><b/></doc>', 'third', recoveries=['5.5-template-conflict'])
    # no conflict recorded when one template matches through two alternatives
    check('union-self', T('b|*', 'x', 'priority="1"'), '<b/>', 'x', recoveries=[])
    # import precedence beats priority
    files = {'mem:/imp.xsl': sheet(T('b', 'imported', 'priority="10"') + T('c', 'imp-c'))}
    check('import-precedence', '<xsl:import href="imp.xsl"/>' + T('*', 'main(<xsl:apply-templates/>)'),
          '<doc><b/><c/></doc>', 'main(main()main())', files=files)
    check('import-fallback', '<xsl:import href="imp.xsl"/>' + T('doc', '<xsl:apply-templates/>'),
          '<doc><b/><c/></doc>', 'importedimp-c', files=files)


def test_imports():
    files = {
        'mem:/a.xsl': sheet('<xsl:import href="sub/c.xsl"/>' + T('x', 'A(<xsl:apply-imports/>)')
                            + '<xsl:variable name="v" select="\'a\'"/>'),
        'mem:/b.xsl': sheet(T('x', 'B(<xsl:apply-imports/>)') + T('y', 'By')
                            + '<xsl:variable name="v" select="\'b\'"/><xsl:variable name="w" select="\'wb\'"/>'),
        'mem:/sub/c.xsl': sheet('<xsl:include href="d.xsl"/>' + T('x', 'C')),
        'mem:/sub/d.xsl': sheet(T('y', 'Dy(<xsl:apply-imports/>)') + T('z', 'Dz')),
    }
    main = ('<xsl:import href="a.xsl"/><xsl:import href="b.xsl"/>'
            + T('doc', '<xsl:apply-templates/>|<xsl:value-of select="$v"/>|<xsl:value-of select="$w"/>'))
    # precedence: c(+d) < a < b < main.  x: B wins; its apply-imports sees only
    # what b.xsl imports (nothing) -> built-in rule -> text.
    check('import-tree', main, '<doc><x>t</x><y>u</y><z/></doc>', 'B(t)ByDz|b|wb', files=files)
    # apply-imports from a.xsl reaches c.xsl
    main2 = '<xsl:import href="a.xsl"/>' + T('doc', '<xsl:apply-templates/>')
    check('apply-imports-chain', main2, '<doc><x>t</x><y>u</y></doc>', 'A(C)Dy(u)', files=files)
    # apply-imports in the main stylesheet sees everything imported
    main3 = ('<xsl:import href="a.xsl"/><xsl:import href="b.xsl"/>' + T('x', 'M(<xsl:apply-imports/>)'))
    check('apply-imports-main', main3, '<x>t</x>', 'M(B(t))', files=files)
    # apply-imports keeps the mode; no params passed; position/last unchanged
    files2 = {'mem:/i.xsl': sheet(T('x', 'I-nomode') + T('x', 'I-m:<xsl:value-of select="position()"/>/<xsl:value-of select="last()"/>', 'mode="m"'))}
    check('apply-imports-mode', '<xsl:import href="i.xsl"/>' + T('doc', '<xsl:apply-templates mode="m"/>')
          + T('x', '(<xsl:apply-imports/>)', 'mode="m"'), '<doc><x/><x/></doc>', '(I-m:1/2)(I-m:2/2)', files=files2)
    # apply-imports inside for-each: current template rule is null -> error
    check_error('apply-imports-in-for-each', XSLTDynamicError,
                T('doc', '<xsl:for-each select="."><xsl:apply-imports/></xsl:for-each>'))
    # call-template does not change the current template rule
    check('apply-imports-via-call', '<xsl:import href="i.xsl"/>' + T('x', '<xsl:call-template name="n"/>')
          + '<xsl:template name="n">[<xsl:apply-imports/>]</xsl:template>', '<x/>', '[I-nomode]', files=files2)
    # include: same precedence as the includer; later in document order wins
    files3 = {'mem:/inc.xsl': sheet(T('x', 'INC'))}
    check('include-order-1', '<xsl:include href="inc.xsl"/>' + T('x', 'MAIN'), '<x/>', 'MAIN',
          files=files3, recoveries=['5.5-template-conflict'])
    check('include-order-2', T('x', 'MAIN') + '<xsl:include href="inc.xsl"/>', '<x/>', 'INC',
          files=files3, recoveries=['5.5-template-conflict'])
    # named template / variable override by precedence
    files4 = {'mem:/n.xsl': sheet('<xsl:template name="t">imp</xsl:template><xsl:variable name="g" select="1"/>')}
    check('named-override', '<xsl:import href="n.xsl"/><xsl:template name="t">main</xsl:template>'
          '<xsl:variable name="g" select="2"/>' + T('/', '<xsl:call-template name="t"/><xsl:value-of select="$g"/>'),
          '<x/>', 'main2', files=files4)
    check_error('import-after-other', XSLTStaticError, T('x', '') + '<xsl:import href="n.xsl"/>', files=files4)
    check_error('import-cycle', XSLTStaticError, '<xsl:import href="main.xsl"/>',
                files={'mem:/main.xsl': sheet('<xsl:import href="main.xsl"/>')})
    check_error('include-cycle', XSLTStaticError, '<xsl:include href="q.xsl"/>',
                files={'mem:/q.xsl': sheet('<xsl:include href="q.xsl"/>')})
    # imports of an included module are moved up: lower precedence than the includer
    files5 = {'mem:/inc2.xsl': sheet('<xsl:import href="low.xsl"/>' + T('y', 'INC-y')),
              'mem:/low.xsl': sheet(T('x', 'LOW-x', 'priority="5"') + T('y', 'LOW-y', 'priority="5"'))}
    check('include-with-import', T('x', 'MAIN-x') + '<xsl:include href="inc2.xsl"/>' + T('doc', '<xsl:apply-templates/>'),
          '<doc><x/><y/></doc>', 'MAIN-xINC-y', files=files5)


def test_variables():
    xml = '<doc><a>1</a><a>2</a></doc>'
    check('var-select', T('/', '<xsl:variable name="v" select="count(//a)"/><xsl:value-of select="$v + 1"/>'), xml, '3')
    check('var-empty', T('/', '<xsl:variable name="v"/>[<xsl:value-of select="$v"/>]<xsl:value-of select="string-length($v)"/>'),
          xml, '[]0')
    # 11.2: RTF converted to boolean in a predicate
    check('rtf-predicate', T('doc', '<xsl:variable name="n">2</xsl:variable><xsl:value-of select="a[$n]"/>|<xsl:value-of select="a[position()=$n]"/>|<xsl:value-of select="a[number($n)]"/>'),
          xml, '1|2|2')
    check('rtf-string', T('/', '<xsl:variable name="r"><x>a<y>b</y></x>c</xsl:variable><xsl:value-of select="$r"/>|<xsl:value-of select="string-length($r)"/>|<xsl:value-of select="$r = \'abc\'"/>|<xsl:value-of select="boolean($r)"/>'),
          xml, 'abc|3|true|true')
    check('rtf-empty-true', T('/', '<xsl:variable name="r"><xsl:if test="false()">x</xsl:if></xsl:variable><xsl:value-of select="boolean($r)"/>'),
          xml, 'true')
    check('rtf-copy-of', T('/', '<xsl:variable name="r"><x k="1">a<y/></x>c<xsl:comment>m</xsl:comment><xsl:processing-instruction name="p">q</xsl:processing-instruction></xsl:variable><o><xsl:copy-of select="$r"/></o><xsl:copy-of select="$r"/>'),
          xml, '<o><x k="1">a<y/></x>c<!--m--><?p q?></o><x k="1">a<y/></x>c<!--m--><?p q?>')
    # attribute written into an RTF root: error, recovery = ignored
    check('rtf-root-attr', T('/', '<xsl:variable name="r"><xsl:attribute name="k">v</xsl:attribute>t</xsl:variable><o><xsl:copy-of select="$r"/></o>'),
          xml, '<o>t</o>', recoveries=['7.1.3-attribute-on-non-element'])
    # RTF used as a node-set: error
    check_error('rtf-path', XSLTDynamicError, T('/', '<xsl:variable name="r"><x/></xsl:variable><xsl:value-of select="count($r/x)"/>'))
    check_error('rtf-for-each', XSLTDynamicError, T('/', '<xsl:variable name="r"><x/></xsl:variable><xsl:for-each select="$r">.</xsl:for-each>'))
    check_error('rtf-union', XSLTDynamicError, T('/', '<xsl:variable name="r"><x/></xsl:variable><xsl:value-of select="count($r | /)"/>'))
    check_error('rtf-filter', XSLTDynamicError, T('/', '<xsl:variable name="r"><x/></xsl:variable><xsl:value-of select="$r[1]"/>'))
    check_error('rtf-count', XSLTDynamicError, T('/', '<xsl:variable name="r"><x/></xsl:variable><xsl:value-of select="count($r)"/>'))
    # exsl:node-set / xalan:nodeset
    check('nodeset', sheet(T('/', '<xsl:variable name="r"><x>1</x><x>2</x></xsl:variable>'
                             '<xsl:value-of select="count(e:node-set($r)/x)"/>|<xsl:value-of select="sum(xa:nodeset($r)/x)"/>|'
                             '<xsl:for-each select="e:node-set($r)/x">[<xsl:value-of select="."/>:<xsl:value-of select="position()"/>]</xsl:for-each>'
                             '<xsl:value-of select="name(e:node-set($r)/*[2]/..)"/>'),
                   'xmlns:e="http://exslt.org/common" xmlns:xa="http://xml.apache.org/xalan" exclude-result-prefixes="e xa"'),
          xml, '2|3|[1:1][2:2]', full=True)
    # scoping: a local variable shadows a global one; inner scope ends with its parent
    check('shadow-global', '<xsl:variable name="v" select="\'g\'"/>'
          + T('/', '<xsl:value-of select="$v"/><xsl:variable name="v" select="\'l\'"/><xsl:value-of select="$v"/><xsl:call-template name="n"/>')
          + '<xsl:template name="n"><xsl:value-of select="$v"/></xsl:template>', xml, 'glg')
    check('scope-ends', T('/', '<xsl:if test="true()"><xsl:variable name="v" select="1"/><xsl:value-of select="$v"/></xsl:if><xsl:variable name="v" select="2"/><xsl:value-of select="$v"/>'),
          xml, '12')
    check_error('shadow-local', XSLTStaticError, T('/', '<xsl:variable name="v" select="1"/><xsl:if test="1"><xsl:variable name="v" select="2"/></xsl:if>'))
    check_error('shadow-param', XSLTStaticError, T('/', '<xsl:param name="v" select="1"/><xsl:variable name="v" select="2"/>'))
    check_error('twice-global', XSLTStaticError, '<xsl:variable name="v" select="1"/><xsl:variable name="v" select="2"/>')
    check_error('unbound-var', XSLTStaticError, T('/', '<xsl:value-of select="$nope"/>'))
    check_error('var-not-yet-in-scope', XSLTStaticError, T('/', '<xsl:value-of select="$v"/><xsl:variable name="v" select="1"/>'))
    check_error('var-own-select', XSLTStaticError, T('/', '<xsl:variable name="v" select="$v"/>'))
    check_error('var-out-of-scope', XSLTStaticError, T('/', '<xsl:if test="1"><xsl:variable name="v" select="1"/></xsl:if><xsl:value-of select="$v"/>'))
    check_error('unbound-even-if-unevaluated', XSLTStaticError, T('nomatch', '<xsl:value-of select="$nope"/>'))
    check_error('select-and-content', XSLTStaticError, T('/', '<xsl:variable name="v" select="1">x</xsl:variable>'))
    check_error('var-in-match', XSLTStaticError, '<xsl:variable name="g" select="1"/>' + T('a[$g]', ''))
    # globals: forward references, circularity
    check('global-forward', '<xsl:variable name="a" select="$b + 1"/><xsl:variable name="b" select="count(//a)"/>'
          + T('/', '<xsl:value-of select="$a"/>'), xml, '3')
    check_error('global-circular', XSLTStaticError, '<xsl:variable name="a" select="$b"/><xsl:variable name="b" select="$a"/>')
    check_error('global-circular-via-template', XSLTStaticError,
                '<xsl:variable name="a"><xsl:call-template name="t"/></xsl:variable><xsl:template name="t"><xsl:value-of select="$a"/></xsl:template>')
    # global variable context: root node of the source
    check('global-context', '<xsl:variable name="g" select="name(*)"/><xsl:variable name="h"><xsl:value-of select="position()"/>/<xsl:value-of select="last()"/><xsl:apply-templates select="doc/a[1]"/></xsl:variable>'
          + T('/', '<xsl:value-of select="$g"/>:<xsl:copy-of select="$h"/>') + T('a', '<A/>'), xml, 'doc:1/1<A/>')
    # top-level params
    st = '<xsl:param name="p" select="\'dflt\'"/><xsl:param name="q" select="7"/><xsl:param xmlns:n="urn:n" name="n:r">rtf</xsl:param>' \
         + T('/', '<xsl:value-of select="$p"/>|<xsl:value-of select="$q + 1"/>|<xsl:value-of xmlns:m="urn:n" select="$m:r"/>')
    check('param-default', st, xml, 'dflt|8|rtf')
    check('param-passed', st, xml, 'given|3.5|true', params={'p': 'given', 'q': 2.5, '{urn:n}r': True, 'unused': 'x'})
    check('param-int', st, xml, 'dflt|4|rtf', params={'q': 3})
    check('variable-not-overridden', '<xsl:variable name="p" select="1"/>' + T('/', '<xsl:value-of select="$p"/>'), xml, '1',
          params={'p': 'x'})
    # template params
    check('call-params', T('/', '<xsl:call-template name="t"><xsl:with-param name="a" select="1"/><xsl:with-param name="zz" select="9"/></xsl:call-template>')
          + '<xsl:template name="t"><xsl:param name="a" select="0"/><xsl:param name="b" select="$a + 10"/><xsl:param name="c">C</xsl:param>'
            '<xsl:value-of select="$a"/>,<xsl:value-of select="$b"/>,<xsl:value-of select="$c"/></xsl:template>', xml, '1,11,C')
    # with-param values are evaluated in the caller's context
    check('with-param-context', T('doc', '<xsl:apply-templates select="a"><xsl:with-param name="p" select="name()"/><xsl:with-param name="q"><xsl:value-of select="position()"/></xsl:with-param></xsl:apply-templates>')
          + T('a', '<xsl:param name="p"/><xsl:param name="q"/>[<xsl:value-of select="$p"/><xsl:value-of select="$q"/><xsl:value-of select="position()"/>]'),
          xml, '[doc11][doc12]')
    check_error('param-not-first', XSLTStaticError, T('/', 'x<xsl:param name="p"/>'))
    check_error('with-param-twice', XSLTStaticError, T('/', '<xsl:call-template name="t"><xsl:with-param name="a"/><xsl:with-param name="a"/></xsl:call-template>')
                + '<xsl:template name="t"/>')
    check_error('call-unknown', XSLTStaticError, T('/', '<xsl:call-template name="nope"/>'))
    check_error('named-twice', XSLTStaticError, '<xsl:template name="t"/><xsl:template name="t"/>')
    # call-template keeps current node and position
    check('call-context', T('doc', '<xsl:for-each select="a"><xsl:call-template name="t"/></xsl:for-each>')
          + '<xsl:template name="t">[<xsl:value-of select="."/>:<xsl:value-of select="position()"/>/<xsl:value-of select="last()"/>]</xsl:template>',
          xml, '[1:1/2][2:2/2]')
    # a variable is not visible inside a called template
    check_error('no-dynamic-scope', XSLTStaticError, T('/', '<xsl:variable name="v" select="1"/><xsl:call-template name="t"/>')
                + '<xsl:template name="t"><xsl:value-of select="$v"/></xsl:template>')


def test_instructions():
    xml = '<doc><a x="1">one</a><b>two</b></doc>'
    # 7.1.1 literal result elements, AVTs (7.6.2)
    check('avt', T('doc', '<o p="{a/@x}-{{}}-{b}{concat(\'}\',&quot;{&quot;)}" q="plain"/>'), xml, '<o p="1-{}-two}{" q="plain"/>')
    check('rec-7.6.1', '<xsl:variable name="image-dir">/images</xsl:variable>'
          + T('photograph', '<img src="{$image-dir}/{href}" width="{size/@width}"/>'),
          '<photograph><href>headquarters.jpg</href><size width="300"/></photograph>',
          '<img src="/images/headquarters.jpg" width="300"/>')
    check_error('avt-unclosed', XSLTStaticError, T('/', '<o p="{a"/>'))
    check_error('avt-stray-close', XSLTStaticError, T('/', '<o p="a}b"/>'))
    # 7.1.2 xsl:element
    check('element', sheet(T('doc', '<xsl:element name="{name(a)}x"><xsl:element name="p:e">t</xsl:element><xsl:element name="q:f" namespace="urn:q{1+1}"/><xsl:element name="g" namespace=""/></xsl:element>'),
                           'xmlns:p="urn:p" xmlns="urn:dflt"'),
          xml, '<ax xmlns="urn:dflt"><e xmlns="urn:p">t</e><f xmlns="urn:q2"/><g xmlns=""/></ax>', full=True)
    check('element-bad-name', T('doc', '<o><xsl:element name="1bad"><xsl:attribute name="k">v</xsl:attribute>t<i/></xsl:element></o>'),
          xml, '<o>t<i/></o>', recoveries=['7.1.2-element-name-not-qname'])
    check_error('element-unbound-prefix', XSLTDynamicError, T('doc', '<xsl:element name="zz:e"/>'))
    # 7.1.3 xsl:attribute
    check('attribute', sheet(T('doc', '<o k="lre"><xsl:attribute name="k">repl</xsl:attribute><xsl:attribute name="p:k">pk</xsl:attribute>'
                               '<xsl:attribute name="k2" namespace="urn:n">n</xsl:attribute><xsl:attribute name="{name(b)}"><xsl:value-of select="b"/>!</xsl:attribute>c</o>'),
                             'xmlns:p="urn:p" xmlns="urn:dflt" exclude-result-prefixes="p #default"'),
          xml, '<o xmlns="urn:dflt" k="repl" xmlns:p="urn:p" p:k="pk" xmlns:n="urn:n" n:k2="n" b="two!">c</o>', full=True)
    check('attribute-after-child', T('doc', '<o>t<xsl:attribute name="k">v</xsl:attribute></o><p><q/><xsl:attribute name="k">v</xsl:attribute></p>'),
          xml, '<o>t</o><p><q/></p>', recoveries=['7.1.3-attribute-after-children'])
    check('attribute-after-empty-text', T('doc', '<o><xsl:value-of select="\'\'"/><xsl:attribute name="k">v</xsl:attribute></o>'),
          xml, '<o k="v"/>', recoveries=[])
    check('attribute-on-root', T('/', '<xsl:attribute name="k">v</xsl:attribute><o/>'), xml, '<o/>',
          recoveries=['7.1.3-attribute-on-non-element'])
    check('attribute-non-text', T('doc', '<o><xsl:attribute name="k">a<e>b</e><xsl:comment>c</xsl:comment>d</xsl:attribute></o>'),
          xml, '<o k="ad"/>', recoveries=['7.1.3-non-text-in-attribute'])
    check('attribute-bad-name', T('doc', '<o><xsl:attribute name="a b">v</xsl:attribute><xsl:attribute name="xmlns">v</xsl:attribute></o>'),
          xml, '<o/>', recoveries=['7.1.3-attribute-name-not-qname'])
    check('attribute-later-wins', T('doc', '<o><xsl:attribute name="k">1</xsl:attribute><xsl:attribute name="k">2</xsl:attribute></o>'),
          xml, '<o k="2"/>')
    # the Rec's own example: namespace declaration lookalike via namespace attribute
    check('attribute-xmlns-prefix', T('doc', '<o><xsl:attribute name="xmlns:xsl" namespace="whatever">http://www.w3.org/1999/XSL/Transform</xsl:attribute></o>'),
          xml, '<o xmlns:w="whatever" w:xsl="http://www.w3.org/1999/XSL/Transform"/>')
    # 7.2 text, 7.3 PI, 7.4 comment
    check('text', T('doc', '<o> <xsl:text> </xsl:text>x <xsl:text/></o>'), xml, '<o> x </o>')
    check('pi', T('doc', '<xsl:processing-instruction name="{name(a)}">d<xsl:value-of select="b"/></xsl:processing-instruction>'), xml, '<?a dtwo?>')
    check('pi-close', T('doc', '<xsl:processing-instruction name="p">a?>b??></xsl:processing-instruction>'), xml, '<?p a? >b?? >?>',
          recoveries=['7.3-pi-close'])
    check('pi-bad-name', T('doc', '<xsl:processing-instruction name="xml">a</xsl:processing-instruction><xsl:processing-instruction name="p:q">a</xsl:processing-instruction>x'),
          xml, 'x', recoveries=['7.3-pi-name'])
    check('rec-7.3', T('/', '<xsl:processing-instruction name="xml-stylesheet">href="book.css" type="text/css"</xsl:processing-instruction>'),
          xml, '<?xml-stylesheet href="book.css" type="text/css"?>')
    check('comment', T('doc', '<xsl:comment>This file is automatically generated. Do not edit!</xsl:comment>'), xml,
          '<!--This file is automatically generated. Do not edit!-->')
    r = transform(T('doc', '<xsl:comment>a--b---c-</xsl:comment>'), xml)
    COUNT[0] += 1
    if X.dump(r) != [('C', 'a- -b- - -c- ')] or r.recoveries != ['7.4-comment-dashes']:
        fail('comment-dashes: %r %r' % (X.dump(r), r.recoveries))
    check('comment-non-text', T('doc', '<xsl:comment>a<e>b</e>c</xsl:comment>'), xml, '<!--ac-->',
          recoveries=['7.4-non-text-in-comment'])
    # 7.5 copy
    ident = T('@*|node()', '<xsl:copy><xsl:apply-templates select="@*|node()"/></xsl:copy>')
    src = '<doc xmlns:n="urn:n" a="1" n:b="2"><!--c--><?p d?>t<n:e>u</n:e><f xmlns="urn:f"/></doc>'
    check('rec-7.5-identity', ident, src, src)
    check('copy-kinds', T('doc', '<xsl:for-each select="@*|node()"><xsl:copy>ignored-for-leaves</xsl:copy></xsl:for-each>')
          , '<doc a="1"><!--c--><?p d?>t<e x="1">u</e></doc>', '<!--c--><?p d?>t<e>ignored-for-leaves</e>',
          recoveries=['7.1.3-attribute-on-non-element'])
    check('copy-root', T('/', '<xsl:copy><o/></xsl:copy>'), xml, '<o/>')
    check('copy-attr-to-element', T('doc', '<o><xsl:for-each select="a/@x"><xsl:copy/></xsl:for-each></o>'), xml, '<o x="1"/>')
    # 11.3 copy-of
    check('copy-of', T('doc', '<o><xsl:copy-of select="a/@x"/><xsl:copy-of select="a|b"/><xsl:copy-of select="1 div 4"/><xsl:copy-of select="true()"/><xsl:copy-of select="\'s\'"/></o>'),
          xml, '<o x="1"><a x="1">one</a><b>two</b>0.25trues</o>')
    check('copy-of-root', T('/', '<o><xsl:copy-of select="/"/></o>'), '<?p?><doc/><!--c-->', '<o><?p?><doc/><!--c--></o>')
    check('copy-of-docorder', T('doc', '<xsl:copy-of select="b|a"/>'), xml, '<a x="1">one</a><b>two</b>')
    # 9 if / choose
    check('if', T('doc', '<xsl:for-each select="*"><xsl:value-of select="."/><xsl:if test="not(position()=last())">, </xsl:if></xsl:for-each>'), xml, 'one, two')
    check('choose', T('doc', '<xsl:for-each select="*"><xsl:choose><xsl:when test="@x">X</xsl:when><xsl:when test="true()">T</xsl:when><xsl:otherwise>O</xsl:otherwise></xsl:choose></xsl:for-each>'
                      '<xsl:choose><xsl:when test="false()">F</xsl:when></xsl:choose><xsl:choose><xsl:when test="0">F</xsl:when><xsl:otherwise>O</xsl:otherwise></xsl:choose>'), xml, 'XTO')
    check_error('choose-empty', XSLTStaticError, T('/', '<xsl:choose/>'))
    check_error('choose-order', XSLTStaticError, T('/', '<xsl:choose><xsl:otherwise/><xsl:when test="1"/></xsl:choose>'))
    # 8 for-each
    check('for-each', T('doc', '<xsl:for-each select="*|*/@x">[<xsl:value-of select="name()"/>:<xsl:value-of select="position()"/>/<xsl:value-of select="last()"/>]</xsl:for-each>'),
          xml, '[a:1/3][x:2/3][b:3/3]')
    check_error('for-each-not-nodeset', XSLTDynamicError, T('/', '<xsl:for-each select="1">x</xsl:for-each>'))
    check_error('apply-not-nodeset', XSLTDynamicError, T('/', '<xsl:apply-templates select="\'a\'"/>'))
    # value-of of a node-set: first node in document order
    check('value-of-first', T('doc', '<xsl:value-of select="b|a"/>'), xml, 'one')
    # 13 message
    check('message', T('doc', 'x<xsl:message>m<e>n</e></xsl:message>y'), xml, 'xy', messages=['mn'])
    check_error('message-terminate', XSLTDynamicError, T('doc', '<xsl:message terminate="yes">stop</xsl:message>'))
    # static errors
    check_error('unknown-instruction', XSLTStaticError, T('/', '<xsl:frobnicate/>'))
    check_error('missing-required', XSLTStaticError, T('/', '<xsl:value-of/>'))
    check_error('unknown-attribute', XSLTStaticError, T('/', '<xsl:value-of select="1" foo="x"/>'))
    check_error('bad-qname', XSLTStaticError, '<xsl:template name="a:b:c"/>')
    check_error('unbound-prefix-name', XSLTStaticError, '<xsl:template name="zz:b"/>')
    check_error('unknown-function', XSLTStaticError, T('nomatch', '<xsl:value-of select="nofn()"/>'))
    check_error('bad-arity', XSLTStaticError, T('nomatch', '<xsl:value-of select="key(1)"/>'))
    check_error('bad-expr', XSLTStaticError, T('nomatch', '<xsl:value-of select="1 +"/>'))
    check_error('bad-pattern', XSLTStaticError, T('a/..', ''))
    check_error('bad-pattern-2', XSLTStaticError, T('ancestor::a', ''))
    check_error('template-no-match-name', XSLTStaticError, '<xsl:template/>')
    check_error('mode-without-match', XSLTStaticError, '<xsl:template name="a" mode="m"/>')
    check_error('bad-priority', XSLTStaticError, T('a', '', 'priority="high"'))
    check_error('text-with-element', XSLTStaticError, T('/', '<xsl:text><b/></xsl:text>'))
    check_error('toplevel-null-ns', XSLTStaticError, '<foo/>')
    check_error('toplevel-text', XSLTStaticError, 'text')
    check_error('toplevel-bad', XSLTStaticError, '<xsl:if test="1"/>')
    check_error('nonempty-value-of', XSLTStaticError, T('/', '<xsl:value-of select="1">x</xsl:value-of>'))
    check_error('sort-misplaced', XSLTStaticError, T('/', '<xsl:for-each select="*">x<xsl:sort/></xsl:for-each>'))
    check_error('current-in-pattern', XSLTStaticError, T('a[current()]', ''))
    check_error('no-version', XSLTStaticError, '<xsl:stylesheet %s/>' % XSLNS, full=True)
    check_error('not-wellformed', XSLTStaticError, '<xsl:stylesheet', full=True)
    check('toplevel-user-data', '<u:data xmlns:u="urn:u">ignored<xsl:value-of/></u:data>' + T('/', 'ok'), xml, 'ok')
    # unsupported
    for lab, body in (
            ('doe', T('/', '<xsl:value-of select="1" disable-output-escaping="yes"/>')),
            ('doe-text', T('/', '<xsl:text disable-output-escaping="yes">x</xsl:text>')),
            ('fallback', T('/', '<xsl:fallback/>')),
            ('format-number', T('nomatch', '<xsl:value-of select="format-number(1,\'#\')"/>')),
            ('system-property', T('nomatch', '<xsl:value-of select="system-property(\'xsl:version\')"/>')),
            ('decimal-format', '<xsl:decimal-format/>'),
            ('sort-lang', T('/', '<xsl:for-each select="*"><xsl:sort lang="en"/></xsl:for-each>')),
            ('sort-case-order', T('/', '<xsl:for-each select="*"><xsl:sort case-order="upper-first"/></xsl:for-each>')),
            ('number-lang', T('/', '<xsl:number lang="en"/>')),
            ('number-letter-value', T('/', '<xsl:number letter-value="alphabetic"/>')),
            ('lre-version', T('/', '<o xsl:version="1.0"/>')),
    ):
        check_error('unsupported-' + lab, XSLTUnsupported, body)
    check_error('unsupported-version', XSLTUnsupported, '<xsl:stylesheet version="1.1" %s/>' % XSLNS, full=True)
    check_error('unsupported-ext-prefixes', XSLTUnsupported,
                '<xsl:stylesheet version="1.0" %s xmlns:x="urn:x" extension-element-prefixes="x"/>' % XSLNS, full=True)
    check_error('unsupported-simplified', XSLTUnsupported, '<o xsl:version="1.0" %s/>' % XSLNS, full=True)
    check('doe-no', T('/', '<xsl:value-of select="1" disable-output-escaping="no"/>'), xml, '1')


def test_sort():
    # Rec section 10 example
    emp = ('<employees><employee><name><given>James</given><family>Clark</family></name></employee>'
           '<employee><name><given>Zoe</given><family>Adams</family></name></employee>'
           '<employee><name><given>Anna</given><family>Clark</family></name></employee></employees>')
    check('rec-10', T('employees', '<ul><xsl:apply-templates select="employee"><xsl:sort select="name/family"/><xsl:sort select="name/given"/></xsl:apply-templates></ul>')
          + T('employee', '<li><xsl:value-of select="name/given"/><xsl:text> </xsl:text><xsl:value-of select="name/family"/></li>'),
          emp, '<ul><li>Zoe Adams</li><li>Anna Clark</li><li>James Clark</li></ul>')
    xml = '<l><i k="b" n="2">x1</i><i k="a" n="10">x2</i><i k="b" n="x">x3</i><i k="a" n="9">x4</i></l>'

    def fe(sorts, body='<xsl:value-of select="."/>'):
        return T('l', '<xsl:for-each select="i">%s%s</xsl:for-each>' % (sorts, body))
    check('sort-text-stable', fe('<xsl:sort select="@k"/>'), xml, 'x2x4x1x3')
    check('sort-desc-stable', fe('<xsl:sort select="@k" order="descending"/>'), xml, 'x1x3x2x4')
    check('sort-number-nan-first', fe('<xsl:sort select="@n" data-type="number"/>'), xml, 'x3x1x4x2')
    check('sort-text-digits', fe('<xsl:sort select="@n"/>'), xml, 'x2x1x4x3')
    check('sort-number-desc', fe('<xsl:sort select="@n" data-type="number" order="descending"/>'), xml, 'x2x4x1x3')
    check('sort-two-keys', fe('<xsl:sort select="@k"/><xsl:sort select="@n" data-type="number" order="descending"/>'), xml, 'x2x4x1x3')
    check('sort-two-keys-b', fe('<xsl:sort select="@k" order="descending"/><xsl:sort select="@n" data-type="number"/>'), xml, 'x3x1x4x2')
    check('sort-position-last', fe('<xsl:sort select="@k"/>', '[<xsl:value-of select="."/>:<xsl:value-of select="position()"/>/<xsl:value-of select="last()"/>]'),
          xml, '[x2:1/4][x4:2/4][x1:3/4][x3:4/4]')
    # position() inside the key expression = position in the unsorted list
    check('sort-key-position', fe('<xsl:sort select="position()" data-type="number" order="descending"/>'), xml, 'x4x3x2x1')
    check('sort-key-last', fe('<xsl:sort select="last() - position()" data-type="number"/>'), xml, 'x4x3x2x1')
    check('sort-default-select', fe('<xsl:sort order="descending"/>'), xml, 'x4x3x2x1')
    check('sort-avt', '<xsl:param name="o" select="\'descending\'"/><xsl:param name="t" select="\'number\'"/>'
          + fe('<xsl:sort select="@n" order="{$o}" data-type="{$t}"/>'), xml, 'x2x4x1x3')
    # current() inside a sort key is the node being sorted
    check('sort-current', fe('<xsl:sort select="current()/@n" data-type="number"/>'), xml, 'x3x1x4x2')
    # apply-templates with sort: position()/last() refer to the sorted list
    check('apply-sort', T('l', '<xsl:apply-templates select="i"><xsl:sort select="@n" data-type="number"/></xsl:apply-templates>')
          + T('i', '[<xsl:value-of select="."/>:<xsl:value-of select="position()"/>]'), xml, '[x3:1][x1:2][x4:3][x2:4]')
    # a boolean key is converted to a string first ("true" -> NaN as a number): all equal
    check('sort-bool-key', fe('<xsl:sort select="@k = \'a\'" data-type="number"/>'), xml, 'x1x2x3x4')
    check('sort-bool-key-text', fe('<xsl:sort select="@k = \'a\'"/>'), xml, 'x1x3x2x4')
    # empty key sorts first in text order
    check('sort-empty-key', fe('<xsl:sort select="@zz"/><xsl:sort select="@n"/>'), xml, 'x2x1x4x3')
    check_error('sort-bad-order', XSLTDynamicError, fe('<xsl:sort order="up"/>'), xml)


CHAPTERS = ('<doc><chapter><title>c1</title><section><title>s11</title><subsection><title>ss111</title></subsection>'
            '<subsection><title>ss112</title></subsection></section><section><title>s12</title></section></chapter>'
            '<chapter><title>c2</title><note/><section><title>s21</title><note/><note/></section></chapter>'
            '<appendix><title>a1</title><section><title>as1</title></section></appendix></doc>')


def test_number():
    # Rec 7.7 examples
    check('rec-7.7-multiple', T('title', '<xsl:number level="multiple" count="chapter|section|subsection" format="1.1 "/>|')
          + T('appendix//title', '<xsl:number level="multiple" count="appendix|section|subsection" format="A.1 "/>|', 'priority="1"')
          + T('doc', '<xsl:apply-templates select="//title"/>'), CHAPTERS,
          '1 |1.1 |1.1.1 |1.1.2 |1.2 |2 |2.1 |A |A.1 |')
    check('rec-7.7-any-from', T('note', '<xsl:number level="any" from="chapter" count="note" format="(1) "/>')
          + T('text()', ''), CHAPTERS, '(1) (2) (3) ')
    check('rec-7.7-h4', T('H4', '<xsl:number level="any" from="H1" count="H2"/>.<xsl:number level="any" from="H2" count="H3"/>.<xsl:number level="any" from="H3" count="H4"/>;'),
          '<d><H1/><H2/><H2/><H3/><H4/><H4/><H3/><H4/></d>', '2.1.1;2.1.2;2.2.1;')
    check('rec-7.7-value-position', T('items', '<xsl:for-each select="item"><xsl:sort select="."/><p><xsl:number value="position()" format="1. "/><xsl:value-of select="."/></p></xsl:for-each>'),
          '<items><item>b</item><item>c</item><item>a</item></items>', '<p>1. a</p><p>2. b</p><p>3. c</p>')
    # default: level single, count = same type and name
    check('number-default', T('b', '<xsl:number/>,') + T('text()', ''), '<a><b/><c/><b/>t<b/></a>', '1,2,3,')
    check('number-default-text', T('text()', '<xsl:number/>'), '<a>x<b/>y<!--c-->z</a>', '123')
    check('number-default-ns', sheet(T('*', '<xsl:number/><xsl:apply-templates/>')), '<a xmlns:p="urn:p" xmlns:q="urn:q"><p:b/><q:b/><b/><p:b/></a>', '11112', full=True)
    check('number-single-ancestor', T('i', '<xsl:number count="g"/>,') + T('text()', ''), '<a><g><i/></g><g><x><i/></x></g><i/></a>', '1,2,,')
    check('number-multiple-default-sep', T('i', '<xsl:number level="multiple" count="*" format="1"/>,'), '<a><g/><g><x/><i/></g></a>', '1.2.2,')
    check('number-any', T('n', '<xsl:number level="any"/>,') + T('text()', ''), '<a><n/><b><n/></b><n><n/></n></a>', '1,2,3,')
    check('number-any-count', T('n', '<xsl:number level="any" count="n|b"/>,') + T('text()', ''), '<a><n/><b><n/></b><m/></a>', '1,3,')
    check('number-count-var', T('a', '<xsl:variable name="v" select="\'y\'"/><xsl:for-each select="b"><xsl:number count="b[@k=$v]"/>,</xsl:for-each>'),
          '<a><b k="y"/><b k="n"/><b k="y"/></a>', '1,,2,')
    check('number-single-from', T('i', '<xsl:number count="g" from="f"/>,') + T('text()', ''),
          '<a><g/><g><f><g/><g><i/></g></f></g></a>', '2,')
    # formats 7.7.1
    def nv(value, attrs):
        return T('/', '<xsl:number value="%s" %s/>' % (value, attrs))
    for value, attrs, exp in (
            ('1', 'format="a"', 'a'), ('26', 'format="a"', 'z'), ('27', 'format="a"', 'aa'), ('28', 'format="A"', 'AB'),
            ('703', 'format="A"', 'AAA'), ('4', 'format="i"', 'iv'), ('1999', 'format="i"', 'mcmxcix'), ('14', 'format="I"', 'XIV'),
            ('3999', 'format="I"', 'MMMCMXCIX'), ('5', 'format="01"', '05'), ('1234', 'format="001"', '1234'), ('7', 'format="001"', '007'),
            ('5', 'format="[1]"', '[5]'), ('5', 'format=""', '5'), ('5', '', '5'), ('2.5', '', '3'), ('2.4', '', '2'),
            ('1234567', 'grouping-separator="," grouping-size="3"', '1,234,567'), ('123', 'grouping-separator="," grouping-size="3"', '123'),
            ('1234', 'grouping-separator="."', '1234'), ('1234', 'grouping-size="2"', '1234'),
            ('12345', 'grouping-separator=" " grouping-size="2" format="(1)"', '(1 23 45)'),
            ('3', 'format="{\'A\'}."', 'C.'),
    ):
        check('number-format %s %s' % (value, attrs), nv(value, attrs), '<d/>', exp)
    check('number-format-multi', T('i', '<xsl:number level="multiple" count="*" format="A-1/i)"/>'), '<a><b/><b><c/><c/><c><i/></c></b></a>', 'A-2/iii/i)')
    for lab, body in (('value-0', nv('0', '')), ('value-nan', nv('0 div 0', '')), ('value-neg', nv('-3', '')),
                      ('format-punct-only', nv('1', 'format="."')), ('format-other-token', nv('1', 'format="&#x3B1;"')),
                      ('roman-big', nv('4000', 'format="i"')),
                      ('from-nothing', T('/', '<xsl:for-each select="//i"><xsl:number from="zz"/></xsl:for-each>')),
                      ('from-self', T('/', '<xsl:for-each select="//i"><xsl:number from="i"/></xsl:for-each>')),
                      ('any-zero', T('/', '<xsl:for-each select="//i"><xsl:number level="any" count="zz"/></xsl:for-each>')),
                      ('any-from-nothing', T('/', '<xsl:for-each select="//i"><xsl:number level="any" from="zz"/></xsl:for-each>')),
                      ('any-attr', T('/', '<xsl:for-each select="//@k"><xsl:number level="any"/></xsl:for-each>'))):
        check_error('number-unsupported-' + lab, XSLTUnsupported, body, '<a><i k="1"/></a>')
    # empty list, no punctuation: nothing
    check('number-empty', T('i', '[<xsl:number count="zz"/>]'), '<i/>', '[]')
    check_error('number-bad-level', XSLTStaticError, T('/', '<xsl:number level="all"/>'))
    # from (hand-derived; libxslt reads `from` differently, so this is oracle-only ground)
    fdoc = '<r><s><h/><p/><p/></s><s><p/><h/><p><p/></p></s></r>'
    check('number-any-from-2', T('p', '<xsl:number level="any" count="p" from="h"/>,<xsl:apply-templates/>'), fdoc, '1,2,3,1,2,')
    check('number-single-from-2', T('p/p', '<xsl:number count="p" from="s"/>|<xsl:number level="multiple" count="p" from="s"/>|<xsl:number level="multiple" count="s|p" from="r"/>'),
          '<r><s/><s><p/><h/><p><p/></p></s></r>', '1|2.1|2.2.1')
    check('number-multiple-from-cuts', T('i', '<xsl:number level="multiple" count="*" from="g"/>'), '<a><g/><g><x/><x><i/></x></g></a>', '2.1')


def test_keys():
    check('rec-12.2-idkey', '<xsl:key name="idkey" match="div" use="@id"/>'
          + T('ref', '[<xsl:value-of select="key(\'idkey\',@to)/title"/>]') + T('text()', ''),
          '<doc><div id="a"><title>A</title></div><div id="b"><title>B</title></div><ref to="b"/><ref to="a"/><ref to="c"/></doc>', '[B][A][]')
    books = ('<lib><book><title>T1</title><author>X</author><author>Y</author></book><book><title>T2</title><author>Y</author></book>'
             '<book><title>T3</title><author>Z</author></book><q>Y</q><q>Z</q></lib>')
    k = '<xsl:key name="by-author" match="book" use="author"/>'
    check('key-multivalue', k + T('lib', '<xsl:for-each select="key(\'by-author\',\'Y\')">[<xsl:value-of select="title"/>]</xsl:for-each>'), books, '[T1][T2]')
    check('key-nodeset-arg', k + T('lib', '<xsl:for-each select="key(\'by-author\',q)">[<xsl:value-of select="title"/>]</xsl:for-each>|<xsl:value-of select="count(key(\'by-author\',q))"/>'),
          books, '[T1][T2][T3]|3')
    check('key-miss', k + T('lib', '<xsl:value-of select="count(key(\'by-author\',\'nobody\'))"/>'), books, '0')
    check('key-two-decls', k + '<xsl:key name="by-author" match="book" use="title"/>'
          + T('lib', '<xsl:value-of select="count(key(\'by-author\',\'T3\') | key(\'by-author\',\'Z\'))"/>,<xsl:value-of select="count(key(\'by-author\',\'T1\') | key(\'by-author\',\'Z\'))"/>'), books, '1,2')
    check('key-number-use', '<xsl:key name="n" match="book" use="count(author)"/>' + T('lib', '<xsl:value-of select="key(\'n\', 2)/title"/>,<xsl:value-of select="count(key(\'n\', 1))"/>'), books, 'T1,2')
    check('key-attr-match', '<xsl:key name="a" match="@*" use="name()"/>' + T('d', '<xsl:for-each select="key(\'a\',\'y\')">[<xsl:value-of select="."/>]</xsl:for-each>'),
          '<d><e x="1" y="2"/><f y="3"/></d>', '[2][3]')
    check('key-in-pattern', k + T("key('by-author','Y')/title", '{<xsl:value-of select="."/>}') + T('text()', ''), books, '{T1}{T2}')
    check('key-qname', sheet('<xsl:key name="p:k" match="e" use="@v"/>' + T('d', '<xsl:value-of xmlns:q="urn:p" select="count(key(\'q:k\',\'1\'))"/>'), 'xmlns:p="urn:p"'),
          '<d><e v="1"/><e v="1"/></d>', '2', full=True)
    # key() works in the document of the context node (Rec 12.2 bibref example)
    files = {'mem:/bib.xml': '<bib><entry name="XSLT"><t>XSL Transformations</t></entry><entry name="XPath"><t>XML Path Language</t></entry></bib>'}
    check('rec-12.2-bibref', '<xsl:key name="bib" match="entry" use="@name"/>'
          + T('bibref', '<xsl:variable name="name" select="."/><xsl:for-each select="document(\'bib.xml\')"><xsl:apply-templates select="key(\'bib\',$name)"/></xsl:for-each>')
          + T('entry', '[<xsl:value-of select="t"/>]'),
          '<doc><bibref>XSLT</bibref>;<bibref>none</bibref>;<bibref>XPath</bibref><entry name="XSLT"><t>LOCAL</t></entry></doc>',
          '[XSL Transformations];;[XML Path Language][LOCAL]', files=files)
    check('key-context-doc', '<xsl:key name="bib" match="entry" use="@name"/>'
          + T('doc', '<xsl:value-of select="key(\'bib\',\'XSLT\')/t"/>|<xsl:value-of select="count(key(\'bib\',\'XPath\'))"/>|<xsl:for-each select="document(\'bib.xml\')"><xsl:value-of select="count(key(\'bib\',\'XPath\'))"/></xsl:for-each>'),
          '<doc><entry name="XSLT"><t>LOCAL</t></entry></doc>', 'LOCAL|0|1', files=files)
    check_error('key-var-in-use', XSLTStaticError, '<xsl:variable name="v" select="1"/><xsl:key name="k" match="a" use="$v"/>')
    check_error('key-var-in-match', XSLTStaticError, '<xsl:variable name="v" select="1"/><xsl:key name="k" match="a[$v]" use="."/>')
    check_error('key-missing-attr', XSLTStaticError, '<xsl:key name="k" match="a"/>')
    check_error('key-unknown', XSLTUnsupported, T('/', '<xsl:value-of select="count(key(\'nokey\',1))"/>'))


def ns_of(r, path):
    n = r
    for i in path:
        n = [c for c in n.children if c.kind == 'element'][i]
    return n.namespaces


def check_ns(label, xsl, xml, path, expected, full=False, files=None):
    COUNT[0] += 1
    try:
        r = transform(xsl, xml, full=full, files=files)
    except Exception as e:                                       # noqa
        fail('%s: raised %s: %s' % (label, type(e).__name__, e))
        return
    got = ns_of(r, path)
    if got != expected:
        fail('%s: namespaces expected %r got %r' % (label, expected, got))


def test_namespaces():
    # Rec 7.1.1 namespace-alias example
    st = sheet('<xsl:namespace-alias stylesheet-prefix="axsl" result-prefix="xsl"/>'
               + T('/', '<axsl:stylesheet><xsl:apply-templates/></axsl:stylesheet>')
               + T('block', '<axsl:template match="{.}"><fo:block><axsl:apply-templates/></fo:block></axsl:template>'),
               'xmlns:fo="http://www.w3.org/1999/XSL/Format" xmlns:axsl="http://www.w3.org/1999/XSL/TransformAlias"')
    check('rec-7.1.1-alias', st, '<elements><block>p</block><block>h1</block></elements>',
          '<xsl:stylesheet xmlns:xsl="http://www.w3.org/1999/XSL/Transform" xmlns:fo="http://www.w3.org/1999/XSL/Format">'
          '<xsl:template match="p"><fo:block><xsl:apply-templates/></fo:block></xsl:template>'
          '<xsl:template match="h1"><fo:block><xsl:apply-templates/></fo:block></xsl:template></xsl:stylesheet>', full=True)
    check_ns('alias-nsnodes', st, '<elements/>', [0], {'fo': 'http://www.w3.org/1999/XSL/Format', 'axsl': X.XSL_NS}, full=True)
    # alias applies to attributes and with #default
    st2 = sheet('<xsl:namespace-alias stylesheet-prefix="#default" result-prefix="r"/><xsl:namespace-alias stylesheet-prefix="a" result-prefix="r"/>'
                + T('/', '<o a:k="1" k="2"><a:i/></o>'), 'xmlns="urn:d" xmlns:a="urn:a" xmlns:r="urn:r"')
    check('alias-default-attr', st2, '<x/>', '<o xmlns="urn:r" xmlns:r="urn:r" r:k="1" k="2"><r:i/></o>', full=True)
    # alias by import precedence
    files = {'mem:/i.xsl': sheet('<xsl:namespace-alias stylesheet-prefix="a" result-prefix="b"/>', 'xmlns:a="urn:a" xmlns:b="urn:low"')}
    check('alias-precedence', sheet('<xsl:import href="i.xsl"/><xsl:namespace-alias stylesheet-prefix="a" result-prefix="b"/>'
                                    + T('/', '<a:o/>'), 'xmlns:a="urn:a" xmlns:b="urn:high"'), '<x/>', '<o xmlns="urn:high"/>', full=True, files=files)
    check('alias-imported-only', sheet('<xsl:import href="i.xsl"/>' + T('/', '<a:o/>'), 'xmlns:a="urn:a"'), '<x/>', '<o xmlns="urn:low"/>', full=True, files=files)
    check_error('alias-unbound', XSLTStaticError, '<xsl:namespace-alias stylesheet-prefix="zz" result-prefix="xsl"/>')
    check_error('alias-default-none', XSLTUnsupported, '<xsl:namespace-alias stylesheet-prefix="#default" result-prefix="xsl"/>')
    # namespace nodes of literal result elements (7.1.1)
    st3 = sheet(T('/', '<o xmlns:c="urn:c"><i xmlns:d="urn:d" xmlns:c="urn:c2"/><xsl:element name="e"/><xsl:copy-of select="*"/><xsl:for-each select="*"><xsl:copy/></xsl:for-each></o>'),
                'xmlns:a="urn:a" xmlns:b="urn:b"')
    src = '<x xmlns:s="urn:s" xmlns="urn:sd"><y xmlns:t="urn:t"/></x>'
    check_ns('lre-ns', st3, src, [0], {'a': 'urn:a', 'b': 'urn:b', 'c': 'urn:c'}, full=True)
    check_ns('lre-ns-inner', st3, src, [0, 0], {'a': 'urn:a', 'b': 'urn:b', 'c': 'urn:c2', 'd': 'urn:d'}, full=True)
    check_ns('element-ns', st3, src, [0, 1], {}, full=True)
    check_ns('copy-of-ns', st3, src, [0, 2], {'s': 'urn:s', '': 'urn:sd'}, full=True)
    check_ns('copy-of-ns-child', st3, src, [0, 2, 0], {'s': 'urn:s', '': 'urn:sd', 't': 'urn:t'}, full=True)
    check_ns('copy-ns', st3, src, [0, 3], {'s': 'urn:s', '': 'urn:sd'}, full=True)
    # copying namespace nodes themselves
    check_ns('copy-of-nsnode', T('/', '<o><xsl:copy-of select="*/namespace::s"/><xsl:for-each select="*/*/namespace::t"><xsl:copy/></xsl:for-each></o>'),
             src, [0], {'s': 'urn:s', 't': 'urn:t'})
    # exclude-result-prefixes
    st4 = sheet(T('/', '<o xmlns:c="urn:c"><i xsl:exclude-result-prefixes="b c"><j/></i><k/></o>'),
                'xmlns:a="urn:a" xmlns:b="urn:b" xmlns="urn:dd" exclude-result-prefixes="a #default"')
    check_ns('exclude-sheet', st4, '<x/>', [0], {'b': 'urn:b', 'c': 'urn:c'}, full=True)
    check_ns('exclude-lre', st4, '<x/>', [0, 0], {}, full=True)
    check_ns('exclude-lre-subtree', st4, '<x/>', [0, 0, 0], {}, full=True)
    check_ns('exclude-lre-sibling', st4, '<x/>', [0, 1], {'b': 'urn:b', 'c': 'urn:c'}, full=True)
    check('exclude-names-kept', st4, '<x/>', '<o xmlns="urn:dd"><i><j/></i><k/></o>', full=True)
    check_error('exclude-unbound', XSLTStaticError, '<xsl:stylesheet version="1.0" %s exclude-result-prefixes="zz"/>' % XSLNS, full=True)
    check_error('exclude-default-none', XSLTStaticError, '<xsl:stylesheet version="1.0" %s exclude-result-prefixes="#default"/>' % XSLNS, full=True)
    # exclusion is by namespace URI
    st5 = sheet(T('/', '<o xmlns:a2="urn:a"/>'), 'xmlns:a="urn:a" exclude-result-prefixes="a"')
    check_ns('exclude-by-uri', st5, '<x/>', [0], {}, full=True)
    # name tests in expressions ignore the default namespace of the stylesheet
    check('default-ns-not-in-xpath', sheet(T('a', 'A') + T('d:a', 'DA'), 'xmlns="urn:dflt" xmlns:d="urn:dflt"'),
          '<r><a/><a xmlns="urn:dflt"/></r>', 'ADA', full=True)


def test_attribute_sets():
    # Rec 7.1.4 example
    check('rec-7.1.4', sheet(T('chapter/heading', '<fo:block quadding="start" xsl:use-attribute-sets="title-style"><xsl:apply-templates/></fo:block>')
                             + '<xsl:attribute-set name="title-style"><xsl:attribute name="font-size">12pt</xsl:attribute><xsl:attribute name="font-weight">bold</xsl:attribute></xsl:attribute-set>',
                             'xmlns:fo="urn:fo"'),
          '<chapter><heading>H</heading></chapter>', '<fo:block xmlns:fo="urn:fo" quadding="start" font-size="12pt" font-weight="bold">H</fo:block>', full=True)
    sets = ('<xsl:attribute-set name="base"><xsl:attribute name="a">base-a</xsl:attribute><xsl:attribute name="b">base-b</xsl:attribute></xsl:attribute-set>'
            '<xsl:attribute-set name="derived" use-attribute-sets="base"><xsl:attribute name="b">derived-b</xsl:attribute><xsl:attribute name="c"><xsl:value-of select="name()"/></xsl:attribute></xsl:attribute-set>'
            '<xsl:attribute-set name="other"><xsl:attribute name="a">other-a</xsl:attribute></xsl:attribute-set>')
    check('attrset-nesting', sets + T('d', '<o xsl:use-attribute-sets="derived"/>'), '<d/>', '<o a="base-a" b="derived-b" c="d"/>')
    check('attrset-order', sets + T('d', '<o xsl:use-attribute-sets="derived other"/><o xsl:use-attribute-sets="other derived"/>'), '<d/>',
          '<o a="other-a" b="derived-b" c="d"/><o a="base-a" b="derived-b" c="d"/>')
    check('attrset-lre-overrides', sets + T('d', '<o b="lre" xsl:use-attribute-sets="derived"><xsl:attribute name="c">instr</xsl:attribute></o>'), '<d/>',
          '<o a="base-a" b="lre" c="instr"/>')
    check('attrset-element-copy', sets + T('d', '<xsl:element name="e" use-attribute-sets="other"><xsl:attribute name="z">1</xsl:attribute></xsl:element><xsl:copy use-attribute-sets="derived"/>'), '<d k="v"/>',
          '<e a="other-a" z="1"/><d a="base-a" b="derived-b" c="d"/>')
    check('attrset-copy-nonelement', sets + T('d', '<xsl:for-each select="text()"><xsl:copy use-attribute-sets="derived"/></xsl:for-each>'), '<d>t</d>', 't', recoveries=[])
    # merging of same-named sets, by import precedence
    files = {'mem:/i.xsl': sheet('<xsl:attribute-set name="s"><xsl:attribute name="a">imp-a</xsl:attribute><xsl:attribute name="b">imp-b</xsl:attribute></xsl:attribute-set>')}
    check('attrset-merge', '<xsl:import href="i.xsl"/><xsl:attribute-set name="s"><xsl:attribute name="b">main-b</xsl:attribute><xsl:attribute name="c">main-c</xsl:attribute></xsl:attribute-set>'
          + T('d', '<o xsl:use-attribute-sets="s"/>'), '<d/>', '<o a="imp-a" b="main-b" c="main-c"/>', files=files, recoveries=[])
    check('attrset-merge-same-prec', '<xsl:attribute-set name="s"><xsl:attribute name="b">first</xsl:attribute></xsl:attribute-set><xsl:attribute-set name="s"><xsl:attribute name="b">second</xsl:attribute><xsl:attribute name="c">c</xsl:attribute></xsl:attribute-set>'
          + T('d', '<o xsl:use-attribute-sets="s"/>'), '<d/>', '<o b="second" c="c"/>', recoveries=['7.1.4-attribute-set-conflict'])
    # only top-level variables are visible; evaluated with the current node each time
    check('attrset-context', '<xsl:variable name="g" select="\'G\'"/><xsl:attribute-set name="s"><xsl:attribute name="n"><xsl:value-of select="concat($g, @k, position())"/></xsl:attribute></xsl:attribute-set>'
          + T('d', '<xsl:for-each select="e"><o xsl:use-attribute-sets="s"/></xsl:for-each>'), '<d><e k="x"/><e k="y"/></d>', '<o n="Gx1"/><o n="Gy2"/>')
    check_error('attrset-local-var', XSLTStaticError, '<xsl:attribute-set name="s"><xsl:attribute name="n"><xsl:value-of select="$v"/></xsl:attribute></xsl:attribute-set>'
                + T('d', '<xsl:variable name="v" select="1"/><o xsl:use-attribute-sets="s"/>'))
    check_error('attrset-circular', XSLTStaticError, '<xsl:attribute-set name="s" use-attribute-sets="t"/><xsl:attribute-set name="t" use-attribute-sets="s"/>')
    check_error('attrset-self', XSLTStaticError, '<xsl:attribute-set name="s" use-attribute-sets="s"/>')
    check_error('attrset-bad-child', XSLTStaticError, '<xsl:attribute-set name="s"><o/></xsl:attribute-set>')
    check_error('attrset-undeclared', XSLTUnsupported, T('d', '<o xsl:use-attribute-sets="nope"/>'))


WS_DOC = '<doc> <a> <b/> </a> <p xml:space="preserve"> <q> </q> <r xml:space="default"> <s/> </r></p> <t>x </t></doc>'


def test_whitespace():
    cnt = T('/', '<xsl:value-of select="count(//text())"/>')
    check('ws-none', cnt, WS_DOC, '11')
    check('ws-strip-all', '<xsl:strip-space elements="*"/>' + cnt, WS_DOC, '4')
    check('ws-strip-all-preserve-a', '<xsl:strip-space elements="*"/><xsl:preserve-space elements="a"/>' + cnt, WS_DOC, '6')
    check('ws-preserve-then-strip-order-irrelevant', '<xsl:preserve-space elements="a"/><xsl:strip-space elements="*"/>' + cnt, WS_DOC, '6', recoveries=[])
    check('ws-strip-names', '<xsl:strip-space elements="a  doc"/>' + cnt, WS_DOC, '6')
    check('ws-conflict', '<xsl:strip-space elements="a"/><xsl:preserve-space elements="a"/>' + cnt, WS_DOC, '11', recoveries=['3.4-strip-preserve-conflict'])
    check('ws-conflict-2', '<xsl:preserve-space elements="a"/><xsl:strip-space elements="a"/>' + cnt, WS_DOC, '9', recoveries=['3.4-strip-preserve-conflict'])
    files = {'mem:/i.xsl': sheet('<xsl:strip-space elements="a doc"/>')}
    check('ws-import-precedence', '<xsl:import href="i.xsl"/><xsl:preserve-space elements="*"/>' + cnt, WS_DOC, '11', files=files)
    files2 = {'mem:/i.xsl': sheet('<xsl:preserve-space elements="a"/>')}
    check('ws-import-precedence-2', '<xsl:import href="i.xsl"/><xsl:strip-space elements="*"/>' + cnt, WS_DOC, '4', files=files2)
    check('ws-ns-wildcard', sheet('<xsl:strip-space elements="n:*"/><xsl:preserve-space elements="n:k"/>' + cnt, 'xmlns:n="urn:n"'),
          '<n:d xmlns:n="urn:n"> <n:k> </n:k> <e> </e></n:d>', '2', full=True)
    # unprefixed names in elements= are in no namespace
    check('ws-default-ns', sheet('<xsl:strip-space elements="d"/>' + cnt, 'xmlns="urn:n"'), '<d xmlns="urn:n"> <e/> </d>', '2', full=True)
    # stripping changes positions seen by the stylesheet
    check('ws-positions', '<xsl:strip-space elements="doc"/>' + T('doc', '<xsl:for-each select="node()"><xsl:value-of select="name()"/><xsl:value-of select="position()"/>/<xsl:value-of select="last()"/>,</xsl:for-each>'),
          WS_DOC, 'a1/3,p2/3,t3/3,')
    # applies to document() too
    files3 = {'mem:/w.xml': '<a> <b/> </a>'}
    check('ws-document', '<xsl:strip-space elements="a"/>' + T('/', '<xsl:value-of select="count(document(\'w.xml\')//text())"/>,<xsl:value-of select="count(//text())"/>'),
          '<a> <c> </c></a>', '0,1', files=files3)
    # the stylesheet: whitespace-only text nodes are stripped except in xsl:text / xml:space=preserve
    check('ws-stylesheet', T('/', ' <o> <xsl:text> </xsl:text> <i/>\n</o> '), '<x/>', '<o> <i/></o>')
    check('ws-stylesheet-preserve', T('/', '<o xml:space="preserve"> <i xml:space="default"> <j/> </i> <xsl:value-of select="1"/></o>'), '<x/>',
          '<o xml:space="preserve"> <i xml:space="default"><j/></i> 1</o>')
    check_error('ws-preserved-in-choose', XSLTUnsupported, T('/', '<xsl:choose xml:space="preserve"> <xsl:when test="1">x</xsl:when></xsl:choose>'))
    check_error('ws-preserved-before-param', XSLTUnsupported, '<xsl:template match="/" xml:space="preserve"> <xsl:param name="p"/></xsl:template>')
    check_error('ws-preserved-in-value-of', XSLTUnsupported, T('/', '<xsl:value-of select="1" xml:space="preserve"> </xsl:value-of>'))
    check_error('text-in-choose', XSLTStaticError, T('/', '<xsl:choose>x<xsl:when test="1">x</xsl:when></xsl:choose>'))
    check('ws-stylesheet-nonws', T('/', '<o> a <i/> </o>'), '<x/>', '<o> a <i/></o>')
    check('ws-stylesheet-comment-split', T('/', '<o> <!-- c -->x</o>'), '<x/>', '<o>x</o>')
    check('ws-stylesheet-charref', T('/', '<o>&#32;<i/>&#160;</o>'), '<x/>', '<o><i/>&#160;</o>')


def test_functions():
    files = {'mem:/sub/a.xml': '<a><ref href="b.xml"/><v>A</v></a>', 'mem:/sub/b.xml': '<b><v>SUB-B</v></b>', 'mem:/b.xml': '<b><v>TOP-B</v></b>',
             'mem:/data/b.xml': '<b><v>DATA-B</v></b>'}
    src = '<doc><ref href="b.xml"/><ref href="../sub/a.xml"/></doc>'
    du = 'mem:/data/doc.xml'
    # string argument: relative to the stylesheet module; node-set: relative to the node's document
    check('document-string', T('/', '<xsl:value-of select="document(\'b.xml\')/b/v"/>'), src, 'TOP-B', files=files, doc_uri=du)
    check('document-nodeset', T('/', '<xsl:value-of select="document(doc/ref[1]/@href)/b/v"/>'), src, 'DATA-B', files=files, doc_uri=du)
    check('document-nodeset-multi', T('/', '<xsl:for-each select="document(doc/ref/@href)">[<xsl:value-of select="name(*)"/>]</xsl:for-each>'), src, '[b][a]', files=files, doc_uri=du)
    check('document-chain', T('/', '<xsl:value-of select="document(document(doc/ref[2]/@href)/a/ref/@href)/b/v"/>'), src, 'SUB-B', files=files, doc_uri=du)
    check('document-2arg', T('/', '<xsl:value-of select="document(\'b.xml\', /)/b/v"/>,<xsl:value-of select="document(\'b.xml\', document(\'sub/a.xml\'))/b/v"/>,<xsl:value-of select="document(doc/ref[1]/@href, document(\'sub/a.xml\')/a)/b/v"/>'),
          src, 'DATA-B,SUB-B,SUB-B', files=files, doc_uri=du)
    check('document-same', T('/', '<xsl:value-of select="count(document(\'b.xml\') | document(\'sub/../b.xml\'))"/>,<xsl:value-of select="generate-id(document(\'b.xml\')) = generate-id(document(\'b.xml\'))"/>,'
                             '<xsl:value-of select="count(document(\'b.xml\') | document(\'sub/b.xml\'))"/>,<xsl:value-of select="count(document(\'doc.xml\', /) | /)"/>'),
          src, '1,true,2,1', files=files, doc_uri=du)
    check('document-missing', T('/', '<xsl:value-of select="count(document(\'nope.xml\'))"/>'), src, '0', files=files, recoveries=['12.1-document-unretrievable'])
    check('document-self', T('/', '<xsl:value-of select="count(document(\'\')/xsl:stylesheet/xsl:template)"/>,<xsl:value-of xmlns:u="urn:u" select="document(\'\')/*/u:data"/>')
          + '<u:data xmlns:u="urn:u">D</u:data>' + T('nomatch', ''), src, '2,D', files=files)
    files_i = {'mem:/lib/i.xsl': sheet(T('/', '<xsl:value-of select="document(\'x.xml\')/*"/>')), 'mem:/lib/x.xml': '<x>LIB</x>', 'mem:/x.xml': '<x>TOP</x>'}
    check('document-base-of-import', '<xsl:import href="lib/i.xsl"/>', src, 'LIB', files=files_i)
    check_error('document-fragment', XSLTUnsupported, T('/', '<xsl:value-of select="count(document(\'b.xml#f\'))"/>'), src, files=files)
    # Rec 12.4 current()
    check('rec-12.4-current', T('ref', '[<xsl:value-of select="//glossary/item[@name=current()/@ref]"/>|<xsl:value-of select="//glossary/item[@name=./@ref]"/>]') + T('text()', ''),
          '<d><ref ref="b"/><glossary><item name="a" ref="a">AA</item><item name="b">BB</item></glossary></d>', '[BB|AA]')
    # generate-id
    check('generate-id', T('d', '<xsl:value-of select="generate-id(a) = generate-id(a[1])"/>,<xsl:value-of select="generate-id(a) = generate-id(a[2])"/>,<xsl:value-of select="generate-id(zz) = \'\'"/>,'
                           '<xsl:value-of select="generate-id() = generate-id(.)"/>,<xsl:value-of select="generate-id(a/@k) = generate-id(a)"/>,<xsl:value-of select="count(a[generate-id() = generate-id(current()/a[2])])"/>'),
          '<d><a k="1"/><a/></d>', 'true,false,true,true,false,1')
    # Muenchian grouping: key + generate-id
    check('muenchian', '<xsl:key name="g" match="i" use="@c"/>' + T('l', '<xsl:for-each select="i[generate-id() = generate-id(key(\'g\', @c)[1])]"><xsl:sort select="@c"/>{<xsl:value-of select="@c"/>:<xsl:for-each select="key(\'g\', @c)"><xsl:value-of select="."/></xsl:for-each>}</xsl:for-each>'),
          '<l><i c="y">1</i><i c="x">2</i><i c="y">3</i><i c="x">4</i><i c="z">5</i></l>', '{x:24}{y:13}{z:5}')
    # id()
    check('id', T('/', '<xsl:value-of select="id(\'b\')/@v"/><xsl:value-of select="count(id(\'a b zz\'))"/>') + T("id('a')", 'IDA'),
          '<!DOCTYPE d [<!ATTLIST e id ID #IMPLIED>]><d><e id="a" v="1"/><e id="b" v="2"/></d>', '22')
    check('id-pattern', T("id('a')", 'IDA') + T('text()', ''), '<!DOCTYPE d [<!ATTLIST e id ID #IMPLIED>]><d><e id="a" v="1"/><e id="b" v="2">t</e></d>', 'IDA')
    check('unparsed-entity-uri', T('/', '<xsl:value-of select="unparsed-entity-uri(\'pic\')"/>|<xsl:value-of select="unparsed-entity-uri(\'nope\')"/>'),
          '<!DOCTYPE d [<!NOTATION gif SYSTEM "gif"><!ENTITY pic SYSTEM "http://example.org/p.gif" NDATA gif>]><d/>', 'http://example.org/p.gif|')
    # EXSLT object-type
    check('object-type', sheet(T('/', '<xsl:variable name="r"><x/></xsl:variable><xsl:value-of select="e:object-type($r)"/>,<xsl:value-of select="e:object-type(e:node-set($r))"/>,<xsl:value-of select="e:object-type(1)"/>'),
                               'xmlns:e="http://exslt.org/common"'), '<d/>', 'RTF,node-set,number', full=True)


def test_libxslt_disagreements():
    """Points where libxslt 1.1.35 was found to deviate (vf.tools.xslt_vs_libxslt);
    the expected values below are derived from the Recommendation."""
    # 5.6: apply-imports only sees what the CONTAINING stylesheet imports (not siblings of lower precedence)
    files = {'mem:/m1.xsl': sheet(T('x', 'M1')), 'mem:/m2.xsl': sheet(T('x', '[<xsl:apply-imports/>]'))}
    check('apply-imports-sibling', '<xsl:import href="m1.xsl"/><xsl:import href="m2.xsl"/>', '<x>t</x>', '[t]', files=files)
    # apply-imports in a rule chosen for a text node through the built-in element rule
    check('apply-imports-text', T('text()', '[<xsl:apply-imports/>]'), '<x>t</x>', '[t]')
    # the current node stays what it was after apply-imports fell back to the built-in rule
    check('apply-imports-context', T('/', '<xsl:apply-imports/><xsl:element name="e"><xsl:value-of select="name(*)"/></xsl:element>') + T('a', 'A'),
          '<r><a/></r>', 'A<e>r</e>')
    # attribute nodes have no children
    check('attr-no-children', T('d', '<xsl:for-each select="@*">[<xsl:apply-templates/>]</xsl:for-each>'), '<d k="v"/>', '[]')
    # an unprefixed attribute name test is in no namespace
    check('attr-pattern-ns', sheet(T('d', '<xsl:apply-templates select="@*"/>') + T('@k', 'K') + T('@p:k', 'PK'), 'xmlns:p="urn:p"'),
          '<d xmlns:p="urn:p" p:k="1"/>', 'PK', full=True)
    check('attr-pattern-ns-2', T('d', '<xsl:apply-templates select="@*"/>') + T('@k', 'K'), '<d xmlns:p="urn:p" p:k="v"/>', 'v')
    # positional predicates in patterns count nodes selected by the step (expanded names)
    check('pattern-position-ns', T('b[position() = 2]', 'SECOND') + T('b[1]', 'FIRST') + T('*', '<xsl:apply-templates/>', 'priority="-1"'),
          '<d xmlns:p="urn:p"><p:b/><b/></d>', 'FIRST')
    # 11.4 global variables are evaluated with the root node as current node wherever they are first used
    check('global-context-lazy', '<xsl:variable name="g0" select="count(@*)"/><xsl:variable name="g1"><xsl:for-each select="*"><xsl:value-of select="$g0"/></xsl:for-each></xsl:variable>'
          + T('/', '<xsl:value-of select="$g1"/>'), '<b x="1" y="2"/>', '0')
    # an empty result tree fragment is still true; comparison uses the string-value of its root
    check('rtf-empty-true-2', T('/', '<xsl:variable name="r"><xsl:text/></xsl:variable><xsl:value-of select="boolean($r)"/>,<xsl:value-of select="$r = \'\'"/>'), '<x/>', 'true,true')
    check('rtf-eq-mixed', T('/', '<xsl:variable name="r"><o/>t</xsl:variable><xsl:value-of select="$r = \'t\'"/>,<xsl:value-of select="/ = \'ab\'"/>'), '<x>ab</x><!--c-->', 'true,true')
    # 12.1 document() with one string argument: base URI of the stylesheet MODULE containing the expression
    files2 = {'mem:/lib/m.xsl': sheet(T('x', '<xsl:param name="p" select="document(\'\')/*/*/@match"/><xsl:value-of select="$p"/>')), }
    check('document-self-in-import', '<xsl:import href="lib/m.xsl"/>', '<x/>', 'x', files=files2)
    # 11.2 the base URI of result tree fragment nodes is that of the variable-binding element
    files3 = {'mem:/lib/m.xsl': sheet('<xsl:variable name="r"><o/></xsl:variable>' + T('x', '<xsl:value-of xmlns:e="http://exslt.org/common" select="document(\'e.xml\', e:node-set($r))/*"/>')),
              'mem:/lib/e.xml': '<e>LIB</e>', 'mem:/e.xml': '<e>TOP</e>'}
    check('rtf-base-uri', '<xsl:import href="lib/m.xsl"/>', '<x/>', 'LIB', files=files3)
    # 10: secondary sort keys see the unsorted list too
    check('sort-secondary-position', T('a', '<xsl:for-each select="i"><xsl:sort select="@k"/><xsl:sort select="position()" data-type="number" order="descending"/><xsl:value-of select="@n"/></xsl:for-each>'),
          '<a><i k="" n="1"/><i k="0" n="2"/><i k="0" n="3"/><i k="" n="4"/></a>', '4132')
    # xsl:attribute with a namespace attribute never changes the element's own name
    check('attr-prefix-clash', sheet(T('/', '<p:o><xsl:attribute name="p:k" namespace="urn:z">v</xsl:attribute></p:o>'), 'xmlns:p="urn:p"'),
          '<x/>', '<p:o xmlns:p="urn:p" xmlns:z="urn:z" z:k="v"/>', full=True)
    check('attr-default-ns', sheet(T('/', '<o><xsl:attribute name="k" namespace="urn:d">v</xsl:attribute></o>'), 'xmlns="urn:d"'),
          '<x/>', '<o xmlns="urn:d" xmlns:q="urn:d" q:k="v"/>', full=True)
    check('element-prefix-clash', sheet(T('/', '<xsl:element name="p:e" namespace="urn:z"><xsl:attribute name="p:q">v</xsl:attribute></xsl:element>'), 'xmlns:p="urn:p"'),
          '<x/>', '<z:e xmlns:z="urn:z" xmlns:p="urn:p" p:q="v"/>', full=True)
    # 3.4 strip/preserve conflict: recovery = the last one
    check('ws-conflict-last', '<xsl:strip-space elements="a b"/><xsl:preserve-space elements="b"/>' + T('/', '<xsl:value-of select="count(//text())"/>'),
          '<a> <b> </b></a>', '1', recoveries=['3.4-strip-preserve-conflict'])
    # variable with whitespace-only content: stripped from the stylesheet -> empty string, not a fragment
    check_error('ws-only-variable-is-string', XSLTUnsupported,
                sheet(T('/', '<xsl:variable name="v">\n</xsl:variable><xsl:value-of select="count(e:node-set($v))"/>'), 'xmlns:e="http://exslt.org/common"'), full=True)
    # number('-') is NaN
    check('number-minus', T('/', '<xsl:value-of select="substring(\'-1\', 1, 1) = 0"/>'), '<x/>', 'false')
    # xsl:number level=any with from: the from node itself is not counted
    check('number-any-from-excl', T('d', '<xsl:number level="any" count="a|d" from="a"/>'), '<a><d/></a>', '1')


def test_output():
    COUNT[0] += 1
    files = {'mem:/i.xsl': sheet('<xsl:output method="html" indent="yes" encoding="latin1" cdata-section-elements="a"/>')}
    r = transform('<xsl:import href="i.xsl"/><xsl:output method="xml" omit-xml-declaration="yes" cdata-section-elements="b"/>' + T('/', '<o/>'), '<d/>', files=files)
    exp = {'method': 'xml', 'indent': 'yes', 'encoding': 'latin1', 'omit-xml-declaration': 'yes',
           'cdata-section-elements': [('', 'a'), ('', 'b')], 'effective-method': 'xml'}
    if r.output != exp:
        fail('output merge: %r' % (r.output,))
    COUNT[0] += 1
    r = transform(T('/', ' <HTML/>'), '<d/>')
    if r.output.get('effective-method') != 'html':
        fail('default html method: %r' % (r.output,))
    COUNT[0] += 1
    r = transform(T('/', 'x<html/>'), '<d/>')
    if r.output.get('effective-method') != 'xml':
        fail('default xml method: %r' % (r.output,))
    COUNT[0] += 1
    r = transform('<xsl:output indent="yes"/><xsl:output indent="no"/>' + T('/', '<o/>'), '<d/>')
    if r.output.get('indent') != 'no' or r.recoveries != ['16-output-conflict']:
        fail('output conflict: %r %r' % (r.output, r.recoveries))


def test_perf():
    xsl = (T('/', '<out><xsl:apply-templates/></out>') + T('doc', '<d n="{count(*)}"><xsl:apply-templates select="*"><xsl:sort select="@k"/></xsl:apply-templates></d>')
           + T('a', '<A><xsl:number/><xsl:apply-templates/></A>') + T('a[@k > 3]', '<A3><xsl:value-of select="@k"/><xsl:apply-templates/></A3>')
           + T('b', '<xsl:copy><xsl:copy-of select="@*"/><xsl:apply-templates/></xsl:copy>') + T('b/c', '<xsl:variable name="v" select="count(ancestor::*)"/><C d="{$v}"><xsl:apply-templates/></C>')
           + T('text()', '<xsl:value-of select="normalize-space()"/>') + T('c', 'c') + T('@*', '') + T('comment()', '<xsl:comment>x</xsl:comment>'))
    parts = []
    for i in range(5):
        parts.append('<a k="%d">t%d<b x="1"><c>u</c><c/></b><!--c--></a><b>v</b>' % (i, i))
    xml = '<doc>' + ''.join(parts) + '</doc>'
    res = make_resolver({})
    t0 = time.perf_counter()
    n = 40
    for _ in range(n):
        s = X.compile_stylesheet(sheet(xsl), 'mem:/p.xsl', res)
    t1 = time.perf_counter()
    d = model.parse_document(xml, 'mem:/d.xml')
    for _ in range(n):
        X.transform(s, d)
    t2 = time.perf_counter()
    print('performance: compile %.2f ms, transform %.2f ms (document of %d nodes, 10 templates)'
          % (1000 * (t1 - t0) / n, 1000 * (t2 - t1) / n, len(d.nodes())))


def main():
    for name, f in sorted(globals().items()):
        if name.startswith('test_') and callable(f):
            f()
    print('%d checks, %d failures' % (COUNT[0], len(FAILS)))
    return 1 if FAILS else 0


if __name__ == '__main__':
    sys.exit(main())
