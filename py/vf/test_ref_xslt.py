"""Self-test of vf.ref_xslt.

    cd /verif/py && python3-vt -m vf.test_ref_xslt      (exit 0 = all passed)

Worked examples from the XSLT 1.0 Recommendation (sections 3.4, 5-7, 9-12) and
hand-derived cases for every supported instruction and the tricky interactions.
Expected results were derived by hand from the Recommendation text, never by
running an implementation.  Expected trees are written as XML fragments and
compared in the canonical event form of ref_xslt.dump().
"""
import sys
import time

from . import model
from . import ref_xslt as X
from .ref_xslt import urljoin, XSLTDynamicError, XSLTStaticError, XSLTUnsupported

FAILS = []
COUNT = [0]
XSLNS = 'xmlns:xsl="http://www.w3.org/1999/XSL/Transform"'


def fail(msg):
    FAILS.append(msg)
    if len(FAILS) <= 80:
        print('FAIL: ' + msg)


def sheet(body, attrs=''):
    return '<xsl:stylesheet version="1.0" %s %s>%s</xsl:stylesheet>' % (XSLNS, attrs, body)


def frag_events(fragment):
    d = model.parse_document('<W__>' + fragment + '</W__>')
    return X.model_to_events(d.root)[0][3]


def make_resolver(files):
    def res(href, base):
        return files.get(urljoin(base or '', href))
    return res


def transform(xsl, xml, params=None, files=None, messages=None, full=False):
    files = dict(files or {})
    res = make_resolver(files)
    if not full:
        xsl = sheet(xsl)
    s = X.compile_stylesheet(xsl, 'mem:/main.xsl', res)
    files.setdefault('mem:/main.xsl', xsl)
    d = model.parse_document(xml, 'mem:/doc.xml')
    return X.transform(s, d, params, res, messages)


def check(label, xsl, xml, expected, params=None, files=None, full=False, recoveries=None,
          messages=None):
    """expected: XML fragment of the result tree's children."""
    COUNT[0] += 1
    try:
        msgs = []
        r = transform(xsl, xml, params, files, msgs, full)
        got = X.dump(r)
    except Exception as e:                                       # noqa
        fail('%s: raised %s: %s' % (label, type(e).__name__, e))
        return None
    exp = frag_events(expected)
    if got != exp:
        fail('%s:\n   expected %r\n   got      %r' % (label, exp, got))
    if recoveries is not None and sorted(r.recoveries) != sorted(recoveries):
        fail('%s: recoveries expected %r got %r' % (label, recoveries, r.recoveries))
    if messages is not None and msgs != messages:
        fail('%s: messages expected %r got %r' % (label, messages, msgs))
    return r


def check_error(label, exc, xsl, xml='<doc/>', params=None, files=None, full=False):
    COUNT[0] += 1
    try:
        r = transform(xsl, xml, params, files, None, full)
    except exc:
        return
    except Exception as e:                                       # noqa
        fail('%s: expected %s, raised %s: %s' % (label, exc.__name__, type(e).__name__, e))
        return
    fail('%s: expected %s, got result %r' % (label, exc.__name__, X.dump(r)))


def T(match, body, extra=''):
    return '<xsl:template match="%s" %s>%s</xsl:template>' % (match, extra, body)


# ---------------------------------------------------------------------------
def test_builtin_rules():
    xml = '<doc a="1"><!--c--><?pi d?>t1<e b="2">t2<f>t3</f></e>t4</doc>'
    # 5.8: only text of elements comes out; attributes are not selected by node()
    check('builtin-all', '', xml, 't1t2t3t4')
    # built-in rule for attributes copies the value when they are selected
    check('builtin-attr', T('doc', '<xsl:apply-templates select="@*|e/@b"/>'), xml, '12')
    # built-in rules for comments / PIs do nothing even when selected
    check('builtin-comment-pi', T('doc', '<xsl:apply-templates select="comment()|processing-instruction()"/>x'),
          xml, 'x')
    # modes: built-in element rule continues in the same mode
    check('builtin-mode',
          T('/', '<xsl:apply-templates mode="m"/>') + T('f', '[<xsl:value-of select="."/>]', 'mode="m"')
          + T('f', 'WRONG'), xml, 't1t2[t3]t4')
    # 5.8 + 11.6: built-in rules do not pass parameters on
    check('builtin-no-params',
          T('/', '<xsl:apply-templates><xsl:with-param name="p" select="\'passed\'"/></xsl:apply-templates>')
          + T('f', '<xsl:param name="p" select="\'default\'"/>[<xsl:value-of select="$p"/>]')
          + T('text()', ''), xml, '[default]')
    # ... but a param is passed to a directly selected template
    check('direct-params',
          T('/', '<xsl:apply-templates select="doc/e/f"><xsl:with-param name="p" select="\'passed\'"/></xsl:apply-templates>')
          + T('f', '<xsl:param name="p" select="\'default\'"/>[<xsl:value-of select="$p"/>]'),
          xml, '[passed]')
    # position()/last() in the template matching the root at start-up: list of one
    check('root-position', T('/', '<xsl:value-of select="position()"/>/<xsl:value-of select="last()"/>'),
          xml, '1/1')
    # namespace nodes: built-in rule does nothing
    check('builtin-namespace', T('doc', '<xsl:apply-templates select="namespace::*"/>.'), xml, '.')


def test_conflict_resolution():
    xml = '<doc xmlns:p="urn:p"><a/><p:a/><p:c/><b x="1"/><?t d?></doc>'
    ns = 'xmlns:p="urn:p"'
    # default priorities 5.5: QName 0, NCName:* -0.25, * / node() -0.5, others 0.5
    body = (T('*', 'star(<xsl:value-of select="name()"/>)') + T('p:*', 'pstar') + T('p:a', 'pa')
            + T('a', 'a') + T('processing-instruction()', 'pi') + T('doc', '<xsl:apply-templates/>'))
    check('default-priorities', sheet(body, ns), xml, 'apapstarstar(b)pi', full=True, recoveries=[])
    # processing-instruction(lit) has priority 0, processing-instruction() -0.5
    check('pi-priority', T('processing-instruction()', 'any') + T("processing-instruction('t')", 'lit')
          + T("processing-instruction('u')", 'other'), xml, 'lit')
    # a pattern with a predicate or several steps has 0.5
    check('priority-0.5', T('b', 'plain') + T('b[@x]', 'pred'), '<doc><b x="1"/><b/></doc>',
          'predplain')
    check('priority-0.5-path', T('doc/b', 'path') + T('b', 'plain'), '<doc><b/></doc>', 'path')
    # explicit priority
    check('explicit-priority', T('b', 'low', 'priority="-1"') + T('*', 'star') + T('doc', '<xsl:apply-templates/>'),
          '<doc><b/></doc>', 'star')
    check('explicit-priority-2', T('b', 'hi', 'priority="0.6"') + T('doc/b', 'path'),
          '<doc><b/></doc>', 'hi')
    # union: each alternative has its own default priority
    check('union-priorities', T('a|doc/b', 'U') + T('a', 'A', 'priority="0.25"') + T('b', 'B', 'priority="0.25"')
          + T('doc', '<xsl:apply-templates/>'), '<doc><a/><b/></doc>', 'AU')
    # same precedence and priority: error, recovery = last in stylesheet
    check('conflict-last', T('b', 'first') + T('b', 'second'), '<doc><b/></doc>', 'second',
          recoveries=['5.5-template-conflict'])
    check('conflict-last-2', T('b', 'first', 'priority="0.5"') + T('doc/b', 'second') + T('b[1]', 'third'),
          '<doc><b/></doc>', 'third', recoveries=['5.5-template-conflict'])
    # no conflict recorded when one template matches through two alternatives
    check('union-self', T('b|*', 'x', 'priority="1"'), '<b/>', 'x', recoveries=[])
    # import precedence beats priority
    files = {'mem:/imp.xsl': sheet(T('b', 'imported', 'priority="10"') + T('c', 'imp-c'))}
    check('import-precedence', '<xsl:import href="imp.xsl"/>' + T('*', 'main(<xsl:apply-templates/>)'),
          '<doc><b/><c/></doc>', 'main(main()main())', files=files)
    check('import-fallback', '<xsl:import href="imp.xsl"/>' + T('doc', '<xsl:apply-templates/>'),
          '<doc><b/><c/></doc>', 'importedimp-c', files=files)


def test_imports():
    files = {
        'mem:/a.xsl': sheet('<xsl:import href="sub/c.xsl"/>' + T('x', 'A(<xsl:apply-imports/>)')
                            + '<xsl:variable name="v" select="\'a\'"/>'),
        'mem:/b.xsl': sheet(T('x', 'B(<xsl:apply-imports/>)') + T('y', 'By')
                            + '<xsl:variable name="v" select="\'b\'"/><xsl:variable name="w" select="\'wb\'"/>'),
        'mem:/sub/c.xsl': sheet('<xsl:include href="d.xsl"/>' + T('x', 'C')),
        'mem:/sub/d.xsl': sheet(T('y', 'Dy(<xsl:apply-imports/>)') + T('z', 'Dz')),
    }
    main = ('<xsl:import href="a.xsl"/><xsl:import href="b.xsl"/>'
            + T('doc', '<xsl:apply-templates/>|<xsl:value-of select="$v"/>|<xsl:value-of select="$w"/>'))
    # precedence: c(+d) < a < b < main.  x: B wins; its apply-imports sees only
    # what b.xsl imports (nothing) -> built-in rule -> text.
    check('import-tree', main, '<doc><x>t</x><y>u</y><z/></doc>', 'B(t)ByDz|b|wb', files=files)
    # apply-imports from a.xsl reaches c.xsl
    main2 = '<xsl:import href="a.xsl"/>' + T('doc', '<xsl:apply-templates/>')
    check('apply-imports-chain', main2, '<doc><x>t</x><y>u</y></doc>', 'A(C)Dy(u)', files=files)
    # apply-imports in the main stylesheet sees everything imported
    main3 = ('<xsl:import href="a.xsl"/><xsl:import href="b.xsl"/>' + T('x', 'M(<xsl:apply-imports/>)'))
    check('apply-imports-main', main3, '<x>t</x>', 'M(B(t))', files=files)
    # apply-imports keeps the mode; no params passed; position/last unchanged
    files2 = {'mem:/i.xsl': sheet(T('x', 'I-nomode') + T('x', 'I-m:<xsl:value-of select="position()"/>/<xsl:value-of select="last()"/>', 'mode="m"'))}
    check('apply-imports-mode', '<xsl:import href="i.xsl"/>' + T('doc', '<xsl:apply-templates mode="m"/>')
          + T('x', '(<xsl:apply-imports/>)', 'mode="m"'), '<doc><x/><x/></doc>', '(I-m:1/2)(I-m:2/2)', files=files2)
    # apply-imports inside for-each: current template rule is null -> error
    check_error('apply-imports-in-for-each', XSLTDynamicError,
                T('doc', '<xsl:for-each select="."><xsl:apply-imports/></xsl:for-each>'))
    # call-template does not change the current template rule
    check('apply-imports-via-call', '<xsl:import href="i.xsl"/>' + T('x', '<xsl:call-template name="n"/>')
          + '<xsl:template name="n">[<xsl:apply-imports/>]</xsl:template>', '<x/>', '[I-nomode]', files=files2)
    # include: same precedence as the includer; later in document order wins
    files3 = {'mem:/inc.xsl': sheet(T('x', 'INC'))}
    check('include-order-1', '<xsl:include href="inc.xsl"/>' + T('x', 'MAIN'), '<x/>', 'MAIN',
          files=files3, recoveries=['5.5-template-conflict'])
    check('include-order-2', T('x', 'MAIN') + '<xsl:include href="inc.xsl"/>', '<x/>', 'INC',
          files=files3, recoveries=['5.5-template-conflict'])
    # named template / variable override by precedence
    files4 = {'mem:/n.xsl': sheet('<xsl:template name="t">imp</xsl:template><xsl:variable name="g" select="1"/>')}
    check('named-override', '<xsl:import href="n.xsl"/><xsl:template name="t">main</xsl:template>'
          '<xsl:variable name="g" select="2"/>' + T('/', '<xsl:call-template name="t"/><xsl:value-of select="$g"/>'),
          '<x/>', 'main2', files=files4)
    check_error('import-after-other', XSLTStaticError, T('x', '') + '<xsl:import href="n.xsl"/>', files=files4)
    check_error('import-cycle', XSLTStaticError, '<xsl:import href="main.xsl"/>',
                files={'mem:/main.xsl': sheet('<xsl:import href="main.xsl"/>')})
    check_error('include-cycle', XSLTStaticError, '<xsl:include href="q.xsl"/>',
                files={'mem:/q.xsl': sheet('<xsl:include href="q.xsl"/>')})
    # imports of an included module are moved up: lower precedence than the includer
    files5 = {'mem:/inc2.xsl': sheet('<xsl:import href="low.xsl"/>' + T('y', 'INC-y')),
              'mem:/low.xsl': sheet(T('x', 'LOW-x', 'priority="5"') + T('y', 'LOW-y', 'priority="5"'))}
    check('include-with-import', T('x', 'MAIN-x') + '<xsl:include href="inc2.xsl"/>' + T('doc', '<xsl:apply-templates/>'),
          '<doc><x/><y/></doc>', 'MAIN-xINC-y', files=files5)


def test_variables():
    xml = '<doc><a>1</a><a>2</a></doc>'
    check('var-select', T('/', '<xsl:variable name="v" select="count(//a)"/><xsl:value-of select="$v + 1"/>'), xml, '3')
    check('var-empty', T('/', '<xsl:variable name="v"/>[<xsl:value-of select="$v"/>]<xsl:value-of select="string-length($v)"/>'),
          xml, '[]0')
    # 11.2: RTF converted to boolean in a predicate
    check('rtf-predicate', T('doc', '<xsl:variable name="n">2</xsl:variable><xsl:value-of select="a[$n]"/>|<xsl:value-of select="a[position()=$n]"/>|<xsl:value-of select="a[number($n)]"/>'),
          xml, '1|2|2')
    check('rtf-string', T('/', '<xsl:variable name="r"><x>a<y>b</y></x>c</xsl:variable><xsl:value-of select="$r"/>|<xsl:value-of select="string-length($r)"/>|<xsl:value-of select="$r = \'abc\'"/>|<xsl:value-of select="boolean($r)"/>'),
          xml, 'abc|3|true|true')
    check('rtf-empty-true', T('/', '<xsl:variable name="r"><xsl:if test="false()">x</xsl:if></xsl:variable><xsl:value-of select="boolean($r)"/>'),
          xml, 'true')
    check('rtf-copy-of', T('/', '<xsl:variable name="r"><x k="1">a<y/></x>c<xsl:comment>m</xsl:comment><xsl:processing-instruction name="p">q</xsl:processing-instruction></xsl:variable><o><xsl:copy-of select="$r"/></o><xsl:copy-of select="$r"/>'),
          xml, '<o><x k="1">a<y/></x>c<!--m--><?p q?></o><x k="1">a<y/></x>c<!--m--><?p q?>')
    # attribute written into an RTF root: error, recovery = ignored
    check('rtf-root-attr', T('/', '<xsl:variable name="r"><xsl:attribute name="k">v</xsl:attribute>t</xsl:variable><o><xsl:copy-of select="$r"/></o>'),
          xml, '<o>t</o>', recoveries=['7.1.3-attribute-on-non-element'])
    # RTF used as a node-set: error
    check_error('rtf-path', XSLTDynamicError, T('/', '<xsl:variable name="r"><x/></xsl:variable><xsl:value-of select="count($r/x)"/>'))
    check_error('rtf-for-each', XSLTDynamicError, T('/', '<xsl:variable name="r"><x/></xsl:variable><xsl:for-each select="$r">.</xsl:for-each>'))
    check_error('rtf-union', XSLTDynamicError, T('/', '<xsl:variable name="r"><x/></xsl:variable><xsl:value-of select="count($r | /)"/>'))
    check_error('rtf-filter', XSLTDynamicError, T('/', '<xsl:variable name="r"><x/></xsl:variable><xsl:value-of select="$r[1]"/>'))
    check_error('rtf-count', XSLTDynamicError, T('/', '<xsl:variable name="r"><x/></xsl:variable><xsl:value-of select="count($r)"/>'))
    # exsl:node-set / xalan:nodeset
    check('nodeset', sheet(T('/', '<xsl:variable name="r"><x>1</x><x>2</x></xsl:variable>'
                             '<xsl:value-of select="count(e:node-set($r)/x)"/>|<xsl:value-of select="sum(xa:nodeset($r)/x)"/>|'
                             '<xsl:for-each select="e:node-set($r)/x">[<xsl:value-of select="."/>:<xsl:value-of select="position()"/>]</xsl:for-each>'
                             '<xsl:value-of select="name(e:node-set($r)/*[2]/..)"/>'),
                   'xmlns:e="http://exslt.org/common" xmlns:xa="http://xml.apache.org/xalan" exclude-result-prefixes="e xa"'),
          xml, '2|3|[1:1][2:2]', full=True)
    # scoping: a local variable shadows a global one; inner scope ends with its parent
    check('shadow-global', '<xsl:variable name="v" select="\'g\'"/>'
          + T('/', '<xsl:value-of select="$v"/><xsl:variable name="v" select="\'l\'"/><xsl:value-of select="$v"/><xsl:call-template name="n"/>')
          + '<xsl:template name="n"><xsl:value-of select="$v"/></xsl:template>', xml, 'glg')
    check('scope-ends', T('/', '<xsl:if test="true()"><xsl:variable name="v" select="1"/><xsl:value-of select="$v"/></xsl:if><xsl:variable name="v" select="2"/><xsl:value-of select="$v"/>'),
          xml, '12')
    check_error('shadow-local', XSLTStaticError, T('/', '<xsl:variable name="v" select="1"/><xsl:if test="1"><xsl:variable name="v" select="2"/></xsl:if>'))
    check_error('shadow-param', XSLTStaticError, T('/', '<xsl:param name="v" select="1"/><xsl:variable name="v" select="2"/>'))
    check_error('twice-global', XSLTStaticError, '<xsl:variable name="v" select="1"/><xsl:variable name="v" select="2"/>')
    check_error('unbound-var', XSLTStaticError, T('/', '<xsl:value-of select="$nope"/>'))
    check_error('var-not-yet-in-scope', XSLTStaticError, T('/', '<xsl:value-of select="$v"/><xsl:variable name="v" select="1"/>'))
    check_error('var-own-select', XSLTStaticError, T('/', '<xsl:variable name="v" select="$v"/>'))
    check_error('var-out-of-scope', XSLTStaticError, T('/', '<xsl:if test="1"><xsl:variable name="v" select="1"/></xsl:if><xsl:value-of select="$v"/>'))
    check_error('unbound-even-if-unevaluated', XSLTStaticError, T('nomatch', '<xsl:value-of select="$nope"/>'))
    check_error('select-and-content', XSLTStaticError, T('/', '<xsl:variable name="v" select="1">x</xsl:variable>'))
    check_error('var-in-match', XSLTStaticError, '<xsl:variable name="g" select="1"/>' + T('a[$g]', ''))
    # globals: forward references, circularity
    check('global-forward', '<xsl:variable name="a" select="$b + 1"/><xsl:variable name="b" select="count(//a)"/>'
          + T('/', '<xsl:value-of select="$a"/>'), xml, '3')
    check_error('global-circular', XSLTStaticError, '<xsl:variable name="a" select="$b"/><xsl:variable name="b" select="$a"/>')
    check_error('global-circular-via-template', XSLTStaticError,
                '<xsl:variable name="a"><xsl:call-template name="t"/></xsl:variable><xsl:template name="t"><xsl:value-of select="$a"/></xsl:template>')
    # global variable context: root node of the source
    check('global-context', '<xsl:variable name="g" select="name(*)"/><xsl:variable name="h"><xsl:value-of select="position()"/>/<xsl:value-of select="last()"/><xsl:apply-templates select="doc/a[1]"/></xsl:variable>'
          + T('/', '<xsl:value-of select="$g"/>:<xsl:copy-of select="$h"/>') + T('a', '<A/>'), xml, 'doc:1/1<A/>')
    # top-level params
    st = '<xsl:param name="p" select="\'dflt\'"/><xsl:param name="q" select="7"/><xsl:param xmlns:n="urn:n" name="n:r">rtf</xsl:param>' \
         + T('/', '<xsl:value-of select="$p"/>|<xsl:value-of select="$q + 1"/>|<xsl:value-of xmlns:m="urn:n" select="$m:r"/>')
    check('param-default', st, xml, 'dflt|8|rtf')
    check('param-passed', st, xml, 'given|3.5|true', params={'p': 'given', 'q': 2.5, '{urn:n}r': True, 'unused': 'x'})
    check('param-int', st, xml, 'dflt|4|rtf', params={'q': 3})
    check('variable-not-overridden', '<xsl:variable name="p" select="1"/>' + T('/', '<xsl:value-of select="$p"/>'), xml, '1',
          params={'p': 'x'})
    # template params
    check('call-params', T('/', '<xsl:call-template name="t"><xsl:with-param name="a" select="1"/><xsl:with-param name="zz" select="9"/></xsl:call-template>')
          + '<xsl:template name="t"><xsl:param name="a" select="0"/><xsl:param name="b" select="$a + 10"/><xsl:param name="c">C</xsl:param>'
            '<xsl:value-of select="$a"/>,<xsl:value-of select="$b"/>,<xsl:value-of select="$c"/></xsl:template>', xml, '1,11,C')
    # with-param values are evaluated in the caller's context
    check('with-param-context', T('doc', '<xsl:apply-templates select="a"><xsl:with-param name="p" select="name()"/><xsl:with-param name="q"><xsl:value-of select="position()"/></xsl:with-param></xsl:apply-templates>')
          + T('a', '<xsl:param name="p"/><xsl:param name="q"/>[<xsl:value-of select="$p"/><xsl:value-of select="$q"/><xsl:value-of select="position()"/>]'),
          xml, '[doc11][doc12]')
    check_error('param-not-first', XSLTStaticError, T('/', 'x<xsl:param name="p"/>'))
    check_error('with-param-twice', XSLTStaticError, T('/', '<xsl:call-template name="t"><xsl:with-param name="a"/><xsl:with-param name="a"/></xsl:call-template>')
                + '<xsl:template name="t"/>')
    check_error('call-unknown', XSLTStaticError, T('/', '<xsl:call-template name="nope"/>'))
    check_error('named-twice', XSLTStaticError, '<xsl:template name="t"/><xsl:template name="t"/>')
    # call-template keeps current node and position
    check('call-context', T('doc', '<xsl:for-each select="a"><xsl:call-template name="t"/></xsl:for-each>')
          + '<xsl:template name="t">[<xsl:value-of select="."/>:<xsl:value-of select="position()"/>/<xsl:value-of select="last()"/>]</xsl:template>',
          xml, '[1:1/2][2:2/2]')
    # a variable is not visible inside a called template
    check_error('no-dynamic-scope', XSLTStaticError, T('/', '<xsl:variable name="v" select="1"/><xsl:call-template name="t"/>')
                + '<xsl:template name="t"><xsl:value-of select="$v"/></xsl:template>')


def test_instructions():
    xml = '<doc><a x="1">one</a><b>two</b></doc>'
    # 7.1.1 literal result elements, AVTs (7.6.2)
    check('avt', T('doc', '<o p="{a/@x}-{{}}-{b}{concat(\'}\',&quot;{&quot;)}" q="plain"/>'), xml, '<o p="1-{}-two}{" q="plain"/>')
    check('rec-7.6.1', '<xsl:variable name="image-dir">/images</xsl:variable>'
          + T('photograph', '<img src="{$image-dir}/{href}" width="{size/@width}"/>'),
          '<photograph><href>headquarters.jpg</href><size width="300"/></photograph>',
          '<img src="/images/headquarters.jpg" width="300"/>')
    check_error('avt-unclosed', XSLTStaticError, T('/', '<o p="{a"/>'))
    check_error('avt-stray-close', XSLTStaticError, T('/', '<o p="a}b"/>'))
    # 7.1.2 xsl:element
    check('element', sheet(T('doc', '<xsl:element name="{name(a)}x"><xsl:element name="p:e">t</xsl:element><xsl:element name="q:f" namespace="urn:q{1+1}"/><xsl:element name="g" namespace=""/></xsl:element>'),
                           'xmlns:p="urn:p" xmlns="urn:dflt"'),
          xml, '<ax xmlns="urn:dflt"><e xmlns="urn:p">t</e><f xmlns="urn:q2"/><g xmlns=""/></ax>', full=True)
    check('element-bad-name', T('doc', '<o><xsl:element name="1bad"><xsl:attribute name="k">v</xsl:attribute>t<i/></xsl:element></o>'),
          xml, '<o>t<i/></o>', recoveries=['7.1.2-element-name-not-qname'])
    check_error('element-unbound-prefix', XSLTDynamicError, T('doc', '<xsl:element name="zz:e"/>'))
    # 7.1.3 xsl:attribute
    check('attribute', sheet(T('doc', '<o k="lre"><xsl:attribute name="k">repl</xsl:attribute><xsl:attribute name="p:k">pk</xsl:attribute>'
                               '<xsl:attribute name="k2" namespace="urn:n">n</xsl:attribute><xsl:attribute name="{name(b)}"><xsl:value-of select="b"/>!</xsl:attribute>c</o>'),
                             'xmlns:p="urn:p" xmlns="urn:dflt" exclude-result-prefixes="p #default"'),
          xml, '<o xmlns="urn:dflt" k="repl" xmlns:p="urn:p" p:k="pk" xmlns:n="urn:n" n:k2="n" b="two!">c</o>', full=True)
    check('attribute-after-child', T('doc', '<o>t<xsl:attribute name="k">v</xsl:attribute></o><p><q/><xsl:attribute name="k">v</xsl:attribute></p>'),
          xml, '<o>t</o><p><q/></p>', recoveries=['7.1.3-attribute-after-children'])
    check('attribute-after-empty-text', T('doc', '<o><xsl:value-of select="\'\'"/><xsl:attribute name="k">v</xsl:attribute></o>'),
          xml, '<o k="v"/>', recoveries=[])
    check('attribute-on-root', T('/', '<xsl:attribute name="k">v</xsl:attribute><o/>'), xml, '<o/>',
          recoveries=['7.1.3-attribute-on-non-element'])
    check('attribute-non-text', T('doc', '<o><xsl:attribute name="k">a<e>b</e><xsl:comment>c</xsl:comment>d</xsl:attribute></o>'),
          xml, '<o k="ad"/>', recoveries=['7.1.3-non-text-in-attribute'])
    check('attribute-bad-name', T('doc', '<o><xsl:attribute name="a b">v</xsl:attribute><xsl:attribute name="xmlns">v</xsl:attribute></o>'),
          xml, '<o/>', recoveries=['7.1.3-attribute-name-not-qname'])
    check('attribute-later-wins', T('doc', '<o><xsl:attribute name="k">1</xsl:attribute><xsl:attribute name="k">2</xsl:attribute></o>'),
          xml, '<o k="2"/>')
    # the Rec's own example: namespace declaration lookalike via namespace attribute
    check('attribute-xmlns-prefix', T('doc', '<o><xsl:attribute name="xmlns:xsl" namespace="whatever">http://www.w3.org/1999/XSL/Transform</xsl:attribute></o>'),
          xml, '<o xmlns:w="whatever" w:xsl="http://www.w3.org/1999/XSL/Transform"/>')
    # 7.2 text, 7.3 PI, 7.4 comment
    check('text', T('doc', '<o> <xsl:text> </xsl:text>x <xsl:text/></o>'), xml, '<o> x </o>')
    check('pi', T('doc', '<xsl:processing-instruction name="{name(a)}">d<xsl:value-of select="b"/></xsl:processing-instruction>'), xml, '<?a dtwo?>')
    check('pi-close', T('doc', '<xsl:processing-instruction name="p">a?>b??></xsl:processing-instruction>'), xml, '<?p a? >b?? >?>',
          recoveries=['7.3-pi-close'])
    check('pi-bad-name', T('doc', '<xsl:processing-instruction name="xml">a</xsl:processing-instruction><xsl:processing-instruction name="p:q">a</xsl:processing-instruction>x'),
          xml, 'x', recoveries=['7.3-pi-name'])
    check('rec-7.3', T('/', '<xsl:processing-instruction name="xml-stylesheet">href="book.css" type="text/css"</xsl:processing-instruction>'),
          xml, '<?xml-stylesheet href="book.css" type="text/css"?>')
    check('comment', T('doc', '<xsl:comment>This file is automatically generated. Do not edit!</xsl:comment>'), xml,
          '<!--This file is automatically generated. Do not edit!-->')
    r = transform(T('doc', '<xsl:comment>a--b---c-</xsl:comment>'), xml)
    COUNT[0] += 1
    if X.dump(r) != [('C', 'a- -b- - -c- ')] or r.recoveries != ['7.4-comment-dashes']:
        fail('comment-dashes: %r %r' % (X.dump(r), r.recoveries))
    check('comment-non-text', T('doc', '<xsl:comment>a<e>b</e>c</xsl:comment>'), xml, '<!--ac-->',
          recoveries=['7.4-non-text-in-comment'])
    # 7.5 copy
    ident = T('@*|node()', '<xsl:copy><xsl:apply-templates select="@*|node()"/></xsl:copy>')
    src = '<doc xmlns:n="urn:n" a="1" n:b="2"><!--c--><?p d?>t<n:e>u</n:e><f xmlns="urn:f"/></doc>'
    check('rec-7.5-identity', ident, src, src)
    check('copy-kinds', T('doc', '<xsl:for-each select="@*|node()"><xsl:copy>ignored-for-leaves</xsl:copy></xsl:for-each>')
          , '<doc a="1"><!--c--><?p d?>t<e x="1">u</e></doc>', '<!--c--><?p d?>t<e>ignored-for-leaves</e>',
          recoveries=['7.1.3-attribute-on-non-element'])
    check('copy-root', T('/', '<xsl:copy><o/></xsl:copy>'), xml, '<o/>')
    check('copy-attr-to-element', T('doc', '<o><xsl:for-each select="a/@x"><xsl:copy/></xsl:for-each></o>'), xml, '<o x="1"/>')
    # 11.3 copy-of
    check('copy-of', T('doc', '<o><xsl:copy-of select="a/@x"/><xsl:copy-of select="a|b"/><xsl:copy-of select="1 div 4"/><xsl:copy-of select="true()"/><xsl:copy-of select="\'s\'"/></o>'),
          xml, '<o x="1"><a x="1">one</a><b>two</b>0.25trues</o>')
    check('copy-of-root', T('/', '<o><xsl:copy-of select="/"/></o>'), '<?p?><doc/><!--c-->', '<o><?p?><doc/><!--c--></o>')
    check('copy-of-docorder', T('doc', '<xsl:copy-of select="b|a"/>'), xml, '<a x="1">one</a><b>two</b>')
    # 9 if / choose
    check('if', T('doc', '<xsl:for-each select="*"><xsl:value-of select="."/><xsl:if test="not(position()=last())">, </xsl:if></xsl:for-each>'), xml, 'one, two')
    check('choose', T('doc', '<xsl:for-each select="*"><xsl:choose><xsl:when test="@x">X</xsl:when><xsl:when test="true()">T</xsl:when><xsl:otherwise>O</xsl:otherwise></xsl:choose></xsl:for-each>'
                      '<xsl:choose><xsl:when test="false()">F</xsl:when></xsl:choose><xsl:choose><xsl:when test="0">F</xsl:when><xsl:otherwise>O</xsl:otherwise></xsl:choose>'), xml, 'XTO')
    check_error('choose-empty', XSLTStaticError, T('/', '<xsl:choose/>'))
    check_error('choose-order', XSLTStaticError, T('/', '<xsl:choose><xsl:otherwise/><xsl:when test="1"/></xsl:choose>'))
    # 8 for-each
    check('for-each', T('doc', '<xsl:for-each select="*|*/@x">[<xsl:value-of select="name()"/>:<xsl:value-of select="position()"/>/<xsl:value-of select="last()"/>]</xsl:for-each>'),
          xml, '[a:1/3][x:2/3][b:3/3]')
    check_error('for-each-not-nodeset', XSLTDynamicError, T('/', '<xsl:for-each select="1">x</xsl:for-each>'))
    check_error('apply-not-nodeset', XSLTDynamicError, T('/', '<xsl:apply-templates select="\'a\'"/>'))
    # value-of of a node-set: first node in document order
    check('value-of-first', T('doc', '<xsl:value-of select="b|a"/>'), xml, 'one')
    # 13 message
    check('message', T('doc', 'x<xsl:message>m<e>n</e></xsl:message>y'), xml, 'xy', messages=['mn'])
    check_error('message-terminate', XSLTDynamicError, T('doc', '<xsl:message terminate="yes">stop</xsl:message>'))
    # static errors
    check_error('unknown-instruction', XSLTStaticError, T('/', '<xsl:frobnicate/>'))
    check_error('missing-required', XSLTStaticError, T('/', '<xsl:value-of/>'))
    check_error('unknown-attribute', XSLTStaticError, T('/', '<xsl:value-of select="1" foo="x"/>'))
    check_error('bad-qname', XSLTStaticError, '<xsl:template name="a:b:c"/>')
    check_error('unbound-prefix-name', XSLTStaticError, '<xsl:template name="zz:b"/>')
    check_error('unknown-function', XSLTStaticError, T('nomatch', '<xsl:value-of select="nofn()"/>'))
    check_error('bad-arity', XSLTStaticError, T('nomatch', '<xsl:value-of select="key(1)"/>'))
    check_error('bad-expr', XSLTStaticError, T('nomatch', '<xsl:value-of select="1 +"/>'))
    check_error('bad-pattern', XSLTStaticError, T('a/..', ''))
    check_error('bad-pattern-2', XSLTStaticError, T('ancestor::a', ''))
    check_error('template-no-match-name', XSLTStaticError, '<xsl:template/>')
    check_error('mode-without-match', XSLTStaticError, '<xsl:template name="a" mode="m"/>')
    check_error('bad-priority', XSLTStaticError, T('a', '', 'priority="high"'))
    check_error('text-with-element', XSLTStaticError, T('/', '<xsl:text><b/></xsl:text>'))
    check_error('toplevel-null-ns', XSLTStaticError, '<foo/>')
    check_error('toplevel-text', XSLTStaticError, 'text')
    check_error('toplevel-bad', XSLTStaticError, '<xsl:if test="1"/>')
    check_error('nonempty-value-of', XSLTStaticError, T('/', '<xsl:value-of select="1">x</xsl:value-of>'))
    check_error('sort-misplaced', XSLTStaticError, T('/', '<xsl:for-each select="*">x<xsl:sort/></xsl:for-each>'))
    check_error('current-in-pattern', XSLTStaticError, T('a[current()]', ''))
    check_error('no-version', XSLTStaticError, '<xsl:stylesheet %s/>' % XSLNS, full=True)
    check_error('not-wellformed', XSLTStaticError, '<xsl:stylesheet', full=True)
    check('toplevel-user-data', '<u:data xmlns:u="urn:u">ignored<xsl:value-of/></u:data>' + T('/', 'ok'), xml, 'ok')
    # unsupported
    for lab, body in (
            ('doe', T('/', '<xsl:value-of select="1" disable-output-escaping="yes"/>')),
            ('doe-text', T('/', '<xsl:text disable-output-escaping="yes">x</xsl:text>')),
            ('fallback', T('/', '<xsl:fallback/>')),
            ('format-number', T('nomatch', '<xsl:value-of select="format-number(1,\'#\')"/>')),
            ('system-property', T('nomatch', '<xsl:value-of select="system-property(\'xsl:version\')"/>')),
            ('decimal-format', '<xsl:decimal-format/>'),
            ('sort-lang', T('/', '<xsl:for-each select="*"><xsl:sort lang="en"/></xsl:for-each>')),
            ('sort-case-order', T('/', '<xsl:for-each select="*"><xsl:sort case-order="upper-first"/></xsl:for-each>')),
            ('number-lang', T('/', '<xsl:number lang="en"/>')),
            ('number-letter-value', T('/', '<xsl:number letter-value="alphabetic"/>')),
            ('lre-version', T('/', '<o xsl:version="1.0"/>')),
    ):
        check_error('unsupported-' + lab, XSLTUnsupported, body)
    check_error('unsupported-version', XSLTUnsupported, '<xsl:stylesheet version="1.1" %s/>' % XSLNS, full=True)
    check_error('unsupported-ext-prefixes', XSLTUnsupported,
                '<xsl:stylesheet version="1.0" %s xmlns:x="urn:x" extension-element-prefixes="x"/>' % XSLNS, full=True)
    check_error('unsupported-simplified', XSLTUnsupported, '<o xsl:version="1.0" %s/>' % XSLNS, full=True)
    check('doe-no', T('/', '<xsl:value-of select="1" disable-output-escaping="no"/>'), xml, '1')


def main():
    for name, f in sorted(globals().items()):
        if name.startswith('test_') and callable(f):
            f()
    print('%d checks, %d failures' % (COUNT[0], len(FAILS)))
    return 1 if FAILS else 0


if __name__ == '__main__':
    sys.exit(main())
