#!/usr/bin/env python3-vt
"""Differential self-test of vf.ref_xpath / vf.model against libxml2 (xsltproc).

    cd /verif/py && python3-vt -m vf.tools.xpath_vs_libxml2 [-n CASES] [-s SEED] [-j JOBS] [-v]

Random (document, context node/position/size, expression) cases are generated,
evaluated by the reference and -- many per xsltproc process -- by
libxml2/libxslt.  Every disagreement is either explained by one of the
documented libxml2 deviation classes below (the reference is re-run with that
deviation EMULATED and must then agree exactly) or reported as UNEXPLAINED.
Exit status 0 iff there is no unexplained disagreement.

===========================================================================
Documented libxml2 2.9.14 / libxslt 1.1.35 deviations from XPath 1.0
(each was decided by reading the Recommendation, not by majority)
===========================================================================
 numfmt      string(number): libxml2 prints at most 15 significant digits and
             switches to exponent notation for |x| >= 1e9 (non-integers, and
             integers outside the int range) and for |x| < 1e-5.  Rec 4.2
             requires positional notation with as many digits as needed to
             round-trip (1 div 3 -> 0.3333333333333333, libxml2
             0.333333333333333; 1e10 div 4 -> 2500000000, libxml2 2.5e+09).
 numparse    Number literals and number(string) are not correctly rounded for
             more than ~15 digits (digit-by-digit accumulation in double
             arithmetic): 0.49999999999999994 becomes 0.5, so
             round(0.49999999999999994) is 1.  Rec 3.5/4.4: nearest IEEE value.
 strnum-exp  number('1e3') is 1000; Rec 4.4: a string that is not optional
             whitespace, optional '-', Number (production 30: no exponent),
             optional whitespace converts to NaN.
 strnum-minus number('-') and number(' - ') are -0 (with strnum-exp also '-e');
             Rec 4.4: NaN.
 number0-empty-pi  the string-value of a processing instruction without data
             is a NULL pointer inside libxml2: number() without argument with
             such a context node gives 0 (Rec: number('') = NaN), and in
             node-set = node-set comparisons it is not equal to the empty
             string-value of another node (Rec 3.4: string-values compared).
 follow-attr following:: from an attribute or namespace context node: libxml2
             returns following(owner element), i.e. omits the owner's
             descendants.  Rec 2.2: "all nodes in the same document as the
             context node that are after the context node in document order,
             excluding any descendants and excluding attribute nodes and
             namespace nodes" -- the owner's children come after the attribute
             in document order (Rec 5: attribute nodes precede the children)
             and are not descendants of the attribute node.
 preceding-docelem  preceding:: from a top-level comment/PI that follows the
             document element omits the first child of the root node when
             that child is an element with children (early exit at
             doc->children in xmlXPathNextPrecedingInternal).
 lang-ns     lang() with a namespace node as context node is always false;
             Rec 4.3: xml:lang of the nearest ancestor (the parent element).
 id-leading-ws  id(' k1 k2'): with leading whitespace the first token is lost
             (it is looked up with the blanks attached).  Rec 4.1: the string
             is split into a whitespace-separated list of tokens.
 id-order    id() returns its result in token order and a predicate applied
             to it -- id('k3 k1')[1], [last()] -- counts positions in that
             order; name(id('k3 k1')) also takes the first token's element.
             Rec 3.3: a FilterExpr predicate filters "with respect to the child
             axis", i.e. in document order; Rec 4.1 name(): "the node in the
             argument node-set that is first in document order".
 ns-undecl   namespace:: of an element whose nearest default-namespace
             declaration is xmlns="" contains a namespace node with empty
             prefix and empty URI.  Rec 5.4 / Namespaces: xmlns="" undeclares,
             there is no such namespace node.
 docorder    (not emulated, detected) libxml2 2.9.14's node-set sort
             (xmlXPathCmpNodesExt) is not document order when a set mixes (a) a
             text/comment/PI node T that has a preceding element sibling S
             with (b) an element or attribute inside S: T is placed before (b).
             It also misplaces namespace nodes relative to other nodes.
             Observable through (E)[n], string(E), name(E) ...  The tool runs
             the reference with an instrumentation hook and accepts such a
             disagreement only if an order-sensitive operation was applied to
             a node-set with exactly that shape.
 ctx-order   same defect in xsl:for-each; context lists therefore contain
             elements only and the stylesheet reports the context node's key,
             which is checked.
 syntax:exp-literal     '1e3', '1.e', '1E-2' are accepted as Numbers (Rec
             production 30 has no exponent; '1e3' is Number NCName -> error).
 syntax:ws-in-qname     'a :b', 'a: b', 'p : *' are accepted as QName/NameTest
             (a QName is a single token, 3.7; whitespace only BETWEEN tokens).
 syntax:repeated-slash  '/ /', '///a', '// //a' are accepted.
 syntax:opname-fused    '3 div4', '1div0', '0and0', '.or..' are accepted
             (operator name recognised without requiring the NCName to end;
             3.7: the longest possible token is always returned).
 In 400 000 mutated strings there was no case of the reference accepting what
 libxml2 rejects.

 XSLT patterns (--patterns N, exploratory, does not affect the exit status):
 libxslt's template matcher is not evaluation-based and deviates from XSLT 5.2
 for: id('a b') with more than one token (matches nothing); predicates on
 attribute steps (@x[1], @x[last()] never/always match); a step after an
 attribute step (@x/node() matches children of the owner); relative patterns
 'a//b', '*//*' and '//node()//x' (the document element is treated as having an
 element ancestor / descendants of root children are missed); '/a[p][q]' with
 two predicates matches a's that are not children of the root.  In every such
 case the reference was checked by hand against the definition "some
 ancestor-or-self A exists such that evaluating the pattern with context A
 selects the node".  20000 random patterns: 19281 agree, all 719 others fall in
 these families.

Things deliberately NOT generated because the Rec leaves them
implementation-dependent: positional predicates / first-node conversions over
namespace nodes (relative order of namespace nodes of one element).
"""
import argparse
import math
import os
import random
import subprocess
import sys
import tempfile
import time
from multiprocessing import Pool

if __name__ == '__main__' and __package__ is None:
    sys.path.insert(0, os.path.dirname(os.path.dirname(os.path.dirname(os.path.abspath(__file__)))))

from vf import model, ref_xpath as rx

XSL = 'http://www.w3.org/1999/XSL/Transform'
NSMAP = {'p': 'urn:p', 'q': 'urn:q', 'd': 'urn:d'}

# ---------------------------------------------------------------------------
# random documents
# ---------------------------------------------------------------------------
TEXTS = ['1', '2', '3', '10', '-1', '1.5', ' ', 'x', 'ab', ' a b ', 'k1', 'k2 k1',
         'NaN', 'é\U0001F600', '&amp;', '<![CDATA[<2]]>', '&#65;', '0', '-0',
         ' 7 ', '1e3', 'abc', '\n', '007', '.5', 'en']
ELNAMES = ['a', 'b', 'c', 'd', 'and', 'div', 'p:a', 'p:b', 'q:c', 'a', 'b']
IDS = ['k1', 'k2', 'k3', 'k4', 'k5']


class DocGen(object):
    def __init__(self, rnd):
        self.r = rnd
        self.count = 0
        self.ids = list(IDS)
        rnd.shuffle(self.ids)

    def attrs(self, name, scope):
        r = self.r
        out = []
        if r.random() < 0.35:
            out.append('i="%s"' % r.choice(['1', '2', '3', 'x', '', ' 2 ', '10']))
        if r.random() < 0.25:
            out.append('j="%s"' % r.choice(['1', 'y', 'k1', 'a b']))
        if 'p' in scope and r.random() < 0.2:
            out.append('p:k="%s"' % r.choice(['1', 'v', '3']))
        if r.random() < 0.12:
            out.append('xml:lang="%s"' % r.choice(['en', 'EN-us', 'fr', '', 'en-GB']))
        if name in ('a', 'b') and r.random() < 0.4:
            if self.ids and r.random() < 0.9:
                out.append('id="%s"' % self.ids.pop())
            else:
                out.append('id="%s"' % r.choice(IDS))
        r.shuffle(out)
        self.count += len(out)
        return out

    def element(self, depth, scope, has_default):
        r = self.r
        self.count += 1
        decls = []
        scope = set(scope)
        if r.random() < 0.12:
            if has_default and r.random() < 0.5:
                decls.append('xmlns=""')
                has_default = False
            else:
                decls.append('xmlns="urn:d"')
                has_default = True
        if 'q' not in scope and r.random() < 0.15:
            decls.append('xmlns:q="urn:q"')
            scope.add('q')
        if r.random() < 0.05:
            decls.append('xmlns:p="urn:p2"' if r.random() < 0.5 else 'xmlns:p="urn:p"')
            scope.add('p')
        name = r.choice(ELNAMES)
        if ':' in name and name.split(':')[0] not in scope:
            name = name.split(':')[1]
        parts = decls + self.attrs(name, scope)
        r.shuffle(parts)
        s = '<' + name + ''.join(' ' + p for p in parts)
        kids = []
        if depth < 4:
            n = r.choice([0, 1, 2, 2, 3, 4]) if depth < 3 else r.choice([0, 0, 1, 2])
            last_text = False
            for _ in range(n):
                if self.count >= 34:
                    break
                k = r.random()
                if k < 0.5:
                    kids.append(self.element(depth + 1, scope, has_default))
                    last_text = False
                elif k < 0.85:
                    kids.append(r.choice(TEXTS))
                    if not last_text:
                        self.count += 1
                    last_text = True
                elif k < 0.93:
                    kids.append('<!--%s-->' % r.choice(['c', '', ' 1 ', 'x y']))
                    self.count += 1
                    last_text = False
                else:
                    kids.append('<?%s%s?>' % (r.choice(['pi', 'a', 'xx']), r.choice(['', ' d', ' 1 '])))
                    self.count += 1
                    last_text = False
        if not kids:
            return s + '/>'
        return s + '>' + ''.join(kids) + '</' + name.strip() + '>'

    def document(self):
        r = self.r
        pro = ''
        if r.random() < 0.2:
            pro += '<!--top-->'
            self.count += 1
        if r.random() < 0.1:
            pro += '<?pi top?>'
            self.count += 1
        body = self.element(0, {'p'}, False)
        # the root element always declares p
        i = body.index('>') if '/>' not in body[:body.index('>') + 1] else body.index('/>')
        if 'xmlns:p=' not in body[:i]:
            body = body[:i] + ' xmlns:p="urn:p"' + body[i:]
        epi = '<!--end-->' if r.random() < 0.1 else ''
        dtd = ('<!DOCTYPE r [<!ATTLIST a id ID #IMPLIED>\n<!ATTLIST b id ID #IMPLIED>\n'
               '<!ATTLIST c dflt CDATA "dv">\n<!-- dtd comment --><?dtdpi x?>]>\n')
        return dtd + pro + body + epi


# ---------------------------------------------------------------------------
# random expressions (type-directed, always type-correct)
# ---------------------------------------------------------------------------
FWD = ['child', 'descendant', 'descendant-or-self', 'following', 'following-sibling',
       'attribute', 'self', 'parent', 'ancestor', 'ancestor-or-self', 'preceding',
       'preceding-sibling', 'child', 'child', 'descendant', 'following', 'preceding',
       'following-sibling', 'preceding-sibling', 'ancestor-or-self', 'descendant-or-self']
NAMETESTS = ['a', 'b', 'c', 'd', 'and', 'div', 'p:a', 'p:b', 'q:c', 'd:a', 'd:b', '*', '*', '*',
             'p:*', 'd:*', 'node()', 'node()', 'text()', 'comment()',
             'processing-instruction()', "processing-instruction('pi')"]
ATTTESTS = ['i', 'j', 'id', 'p:k', 'xml:lang', '*', '*', 'p:*', 'node()', 'dflt', 'xml:*']
STRS = ["''", "'a'", "'b'", "'ab'", "' '", "'1'", "'2'", "'-1'", "' 3 '", "'1.5'", "'NaN'",
        "'abc'", "'en'", "'EN'", "'k1'", "'k1 k2'", "'k3\tk1\nk2'", "'x y'", "'urn:p'", "'1e3'", "'+1'",
        "'é\U0001F600z'", "'\U0001F600'", '"it\'s"', "'  a  b  '", "'12345'", "'.5'", "'5.'",
        "'-'", "'0'", "'-0'", "'Infinity'", "'true'", "'false'", "'1 2'", "'0x1'", "'abcabc'"]
NUMS = ['0', '1', '2', '3', '4', '10', '0.5', '1.5', '2.5', '.5', '5.', '0.1', '100', '1000000',
        '3.7', '2.6', '1 div 0', '-1 div 0', '0 div 0', '-0', '-1', '-2.5', '-0.5', '0.49999999999999994',
        '123456789', '1234567890123', '0.000001', '0.30000000000000004', '9007199254740993',
        '1.0', '00012', '4.35', '1e0'[:1]]


class ExprGen(object):
    def __init__(self, rnd, doc=None):
        self.r = rnd
        self.nametests = list(NAMETESTS)
        self.atttests = list(ATTTESTS)
        if doc is not None:
            rev = dict((u, p) for p, u in NSMAP.items())
            present, apresent = [], []
            for n in doc.nodes(True, False):
                if n.kind in ('element', 'attribute'):
                    if n.uri == '':
                        q = n.local
                    elif n.uri in rev:
                        q = rev[n.uri] + ':' + n.local
                    elif n.uri == model.XML_NS:
                        q = 'xml:' + n.local
                    else:
                        continue
                    (present if n.kind == 'element' else apresent).append(q)
            # two thirds of the name tests hit names that occur in the document
            self.nametests = NAMETESTS + (present * 4 + ['*', 'node()', 'text()'] * 3)[:2 * len(NAMETESTS)]
            if apresent:
                self.atttests = ATTTESTS + (apresent * 4)[:2 * len(ATTTESTS)]

    def pick(self, seq):
        return self.r.choice(seq)

    # ---- node-sets -------------------------------------------------------
    def step(self, d, allow_ns, first=False):
        r = self.r
        k = r.random()
        if k < 0.05:
            return '.'
        if k < 0.10:
            return '..'
        if allow_ns and k < 0.17:
            test = self.pick(['*', '*', 'p', 'xml', 'q', 'node()', 'p:x', 'text()'])
            s = 'namespace::' + test
            if r.random() < 0.3:
                s += self.pick(["[name()='p']", "[.='urn:p']", '[not(name())]',
                                '[string-length(.)>5]', "[starts-with(.,'urn')]",
                                "[local-name()!='xml']", '[..]', '[../@i]'])
            return s
        if k < 0.30:
            t = self.pick(self.atttests)
            s = ('@' if r.random() < 0.7 else 'attribute::') + t
        else:
            ax = self.pick(FWD)
            if ax == 'attribute':
                t = self.pick(self.atttests)
            else:
                t = self.pick(self.nametests)
            if ax == 'child' and r.random() < 0.8:
                s = t
            else:
                s = ax + self.pick(['::', '::', ' :: ']) + t
        for _ in range(self.pick([0, 0, 0, 1, 1, 2])):
            s += self.predicate(d - 1)
        return s

    def predicate(self, d):
        r = self.r
        k = r.random()
        if k < 0.25:
            return '[%s]' % self.pick(['1', '2', '3', 'last()', 'last()-1', '1.5', '0', 'position()',
                                       '2.0', 'last() div 2', '0 div 0', '-1', '1 div 0'])
        if k < 0.40:
            return '[position()%s%s]' % (self.pick(['=', '!=', '<', '<=', '>', '>=', ' mod 2=']),
                                         self.pick(['1', '2', 'last()', '0', '3']))
        if k < 0.5 or d <= 0:
            return '[%s]' % self.pick(['@i', '@*', '*', 'text()', 'not(*)', '@i>1', ".='1'", 'b', '..',
                                       'self::a', 'self::*', '@id', 'position()=last()', 'node()',
                                       'not(@*)', '.>1', "lang('en')", 'count(*)>1', 'string()'])
        k = r.random()
        if k < 0.5:
            return '[%s]' % self.boolean(d)
        if k < 0.7:
            return '[%s]' % self.nodeset(d, False)
        if k < 0.85:
            return '[%s]' % self.number(d)
        return '[%s]' % self.string(d)

    def relpath(self, d, allow_ns):
        n = self.pick([1, 1, 2, 2, 3, 4])
        out = self.step(d, allow_ns, True)
        for _ in range(n - 1):
            out += self.pick(['/', '/', '/', '//', ' / ']) + self.step(d, allow_ns)
        return out

    def nodeset(self, d, allow_ns):
        r = self.r
        k = r.random()
        if d <= 0:
            k = k * 0.55
        if k < 0.10:
            # axis step with a positional predicate straight from the context node
            ax = self.pick(FWD)
            t = self.pick(['*', 'node()', 'node()', 'text()', '*', self.pick(self.nametests)])
            if ax == 'attribute':
                t = self.pick(['*', 'node()'])
            pp = self.pick(['1', '2', '3', 'last()', 'last()-1', 'position()<3', 'position()>1',
                            'position()=last()', 'position() mod 2 = 1', '2][1', 'last()][1',
                            'position()>1][1', '@*][1', '1][@*', 'not(self::text())][2'])
            s = '%s::%s[%s]' % (ax, t, pp)
            if r.random() < 0.25:
                s = self.pick(['//*/', '../', '*/', '//text()/', '//@*/', '/*/*/']) + s
            elif r.random() < 0.2:
                s = '(%s::%s)[%s]' % (ax, t, pp)
            return s
        if k < 0.25:
            return self.relpath(d, allow_ns)
        if k < 0.42:
            return self.pick(['/', '//', '//', '//', '/*/', '/*//']) + self.relpath(d, allow_ns)
        if k < 0.45:
            return '/'
        if k < 0.50:
            return self.pick(['$vset', '$vset', '$vempty', '$vset/' + self.step(d, allow_ns)])
        if k < 0.55:
            return self.pick(['.', '..', '*', '@*', '//*', '//@*', '//node()', '//text()', 'node()'])
        if k < 0.70:
            return '%s | %s' % (self.nodeset(d - 1, allow_ns), self.nodeset(d - 1, allow_ns))
        if k < 0.82:
            # FilterExpr with predicates: order-sensitive -> no namespace nodes inside
            s = '(%s)' % self.nodeset(d - 1, False)
            for _ in range(self.pick([1, 1, 2])):
                s += self.predicate(d - 1)
            if r.random() < 0.4:
                s += self.pick(['/', '//']) + self.relpath(d - 1, allow_ns)
            return s
        if k < 0.90:
            arg = self.pick([self.string(d - 1), self.nodeset(d - 1, False), "'k1 k3'", '//@j', "'k2'",
                             '//text()', '@id', "' k1\tk2 '"])
            s = 'id(%s)' % arg
            if r.random() < 0.4:
                s += self.pick(['/', '//']) + self.relpath(d - 1, allow_ns)
            elif r.random() < 0.2:
                s += self.predicate(d - 1)
            return s
        return '(%s)%s%s' % (self.nodeset(d - 1, allow_ns), self.pick(['/', '//']),
                             self.relpath(d - 1, allow_ns))

    # ---- numbers ---------------------------------------------------------
    def number(self, d):
        r = self.r
        k = r.random()
        if d <= 0 or k < 0.2:
            return self.pick(NUMS + ['$vn', 'position()', 'last()'])
        if k < 0.40:
            op = self.pick(['+', '-', '*', 'div', 'mod', '+', '-', 'mod', 'div'])
            return '%s %s %s' % (self.operand(d - 1, 'n'), op, self.operand(d - 1, 'n'))
        if k < 0.45:
            return self.pick(['-', '- ', '--', '- - ']) + self.operand(d - 1, 'n')
        if k < 0.55:
            return 'count(%s)' % self.nodeset(d - 1, True)
        if k < 0.62:
            return 'sum(%s)' % self.nodeset(d - 1, False)
        if k < 0.72:
            return '%s(%s)' % (self.pick(['floor', 'ceiling', 'round', 'round']), self.number(d - 1))
        if k < 0.80:
            return 'number(%s)' % self.any(d - 1)
        if k < 0.83:
            return 'number()'
        if k < 0.90:
            return self.pick(['string-length(%s)' % self.string(d - 1), 'string-length()'])
        if k < 0.95:
            return '(%s)' % self.number(d - 1)
        return self.pick(['position()', 'last()', '$vn', 'count(//*)', 'count(ancestor::*)'])

    def operand(self, d, t):
        """an operand of any type (implicit conversion), parenthesised if needed"""
        k = self.r.random()
        if k < 0.6:
            s = self.number(d)
        elif k < 0.75:
            s = self.nodeset(d, False)
        elif k < 0.9:
            s = self.string(d)
        else:
            s = self.boolean(d)
        return '(%s)' % s if (' ' in s or '|' in s or s.startswith('-') or s == '/') else s

    # ---- strings ---------------------------------------------------------
    def string(self, d):
        r = self.r
        k = r.random()
        if d <= 0 or k < 0.2:
            return self.pick(STRS + ['$vs', 'name()', 'string()', 'local-name()'])
        if k < 0.30:
            return 'string(%s)' % self.any(d - 1)
        if k < 0.38:
            n = self.pick([2, 2, 3, 4])
            return 'concat(%s)' % ', '.join(self.anystr(d - 1) for _ in range(n))
        if k < 0.46:
            return '%s(%s, %s)' % (self.pick(['substring-before', 'substring-after']),
                                   self.anystr(d - 1), self.anystr(d - 1))
        if k < 0.60:
            if r.random() < 0.4:
                return 'substring(%s, %s)' % (self.anystr(d - 1), self.number(d - 1))
            return 'substring(%s, %s, %s)' % (self.anystr(d - 1), self.number(d - 1), self.number(d - 1))
        if k < 0.68:
            return self.pick(['normalize-space(%s)' % self.anystr(d - 1), 'normalize-space()'])
        if k < 0.76:
            return 'translate(%s, %s, %s)' % (self.anystr(d - 1), self.pick(STRS + ["'abc'", "'aab'", "'12'"]),
                                              self.pick(STRS + ["'xyz'", "'x'", "''"]))
        if k < 0.90:
            f = self.pick(['name', 'local-name', 'namespace-uri'])
            if r.random() < 0.25:
                return f + '()'
            return '%s(%s)' % (f, self.nodeset(d - 1, False))
        return self.pick(STRS)

    def anystr(self, d):
        k = self.r.random()
        if k < 0.6:
            return self.string(d)
        return self.any(d)

    # ---- booleans --------------------------------------------------------
    def boolean(self, d):
        r = self.r
        k = r.random()
        if d <= 0 or k < 0.08:
            return self.pick(['true()', 'false()', '$vb', '@i', '*', 'not(*)'])
        if k < 0.45:
            op = self.pick(['=', '!=', '<', '<=', '>', '>=', '=', '!='])
            # comparisons are existential: namespace nodes allowed
            a = self.cmp_operand(d - 1)
            b = self.cmp_operand(d - 1)
            return '%s %s %s' % (a, op, b)
        if k < 0.60:
            return '%s %s %s' % (self.bool_operand(d - 1), self.pick(['and', 'or']), self.bool_operand(d - 1))
        if k < 0.68:
            return 'not(%s)' % self.any(d - 1, True)
        if k < 0.75:
            return 'boolean(%s)' % self.any(d - 1, True)
        if k < 0.85:
            return '%s(%s, %s)' % (self.pick(['starts-with', 'contains']), self.anystr(d - 1), self.anystr(d - 1))
        if k < 0.92:
            return 'lang(%s)' % self.pick(["'en'", "'EN'", "'en-us'", "'fr'", "''", "'e'", self.string(d - 1)])
        return '(%s)' % self.boolean(d - 1)

    def cmp_operand(self, d):
        k = self.r.random()
        if k < 0.45:
            s = self.nodeset(d, True)
        elif k < 0.7:
            s = self.number(d)
        elif k < 0.88:
            s = self.string(d)
        else:
            s = self.boolean(d)
        # relational/equality operands: parenthesise anything with an operator
        return '(%s)' % s if (' ' in s or s.startswith('-') or s == '/') else s

    def bool_operand(self, d):
        s = self.any(d, True) if self.r.random() < 0.4 else self.boolean(d)
        return '(%s)' % s if (' ' in s or s == '/') else s

    def any(self, d, allow_ns=False):
        k = self.r.random()
        if k < 0.4:
            return self.nodeset(d, allow_ns)
        if k < 0.6:
            return self.number(d)
        if k < 0.8:
            return self.string(d)
        return self.boolean(d)

    def top(self, d):
        k = self.r.random()
        if k < 0.35:
            return self.nodeset(d, True)
        if k < 0.57:
            return self.number(d)
        if k < 0.80:
            return self.string(d)
        return self.boolean(d)


# ---------------------------------------------------------------------------
# stylesheet construction
# ---------------------------------------------------------------------------
def xml_attr(s):
    out = []
    for c in s:
        if c == '&':
            out.append('&amp;')
        elif c == '<':
            out.append('&lt;')
        elif c == '"':
            out.append('&quot;')
        elif c in '\t\n\r':
            out.append('&#%d;' % ord(c))
        else:
            out.append(c)
    return ''.join(out)


KEY_TEMPLATE = '''<xsl:template name="k"><xsl:choose>
<xsl:when test="not(parent::node())">/</xsl:when>
<xsl:when test="self::* or self::text() or self::comment() or self::processing-instruction()"><xsl:for-each select="ancestor-or-self::node()[parent::node()]">/<xsl:value-of select="count(preceding-sibling::node())"/></xsl:for-each></xsl:when>
<xsl:otherwise><xsl:for-each select="parent::*/ancestor-or-self::node()[parent::node()]">/<xsl:value-of select="count(preceding-sibling::node())"/></xsl:for-each><xsl:choose>
<xsl:when test="count(.|../@*)=count(../@*)">/@{<xsl:value-of select="namespace-uri()"/>}<xsl:value-of select="local-name()"/></xsl:when>
<xsl:otherwise>/ns:<xsl:value-of select="name()"/></xsl:otherwise></xsl:choose></xsl:otherwise>
</xsl:choose></xsl:template>
'''

VAR_DEFS = [('vn', '2.5'), ('vs', "'k1 b'"), ('vb', 'true()'),
            ('vset', '//b | //@i | //text()[. > 1]'), ('vempty', '/..')]


_KEY_RE = rx.re.compile(r'^((?:/[0-9]+)*)(?:/@\{(.*)\}([^}]*)|/ns:(.*))?$', rx.re.S)


def key_to_path(key):
    """XPath selecting exactly the node with this structural key."""
    if key == '/':
        return '/'
    m = _KEY_RE.match(key)
    out = ''
    for p in m.group(1).split('/')[1:]:
        out += '/node()[%d]' % (int(p) + 1)
    if m.group(3) is not None:
        out += "/@*[local-name()='%s' and namespace-uri()='%s']" % (m.group(3), m.group(2))
    elif m.group(4) is not None:
        out += "/namespace::*[name()='%s']" % m.group(4)
    return out


CTX_LISTS = ['//*', '/*/*', '//*[@*]', '//*[*]', '//*[not(*)]', '/*/*/*']


def build_stylesheet(groups):
    """groups: [(select, position, [(case_id, expr, expected_type)])]"""
    out = ['<xsl:stylesheet version="1.0" xmlns:xsl="%s" xmlns:exsl="http://exslt.org/common"' % XSL]
    for p, u in sorted(NSMAP.items()):
        out.append(' xmlns:%s="%s"' % (p, u))
    out.append(' exclude-result-prefixes="exsl">\n<xsl:output method="text" encoding="UTF-8"/>\n')
    out.append(KEY_TEMPLATE)
    out.append('<xsl:template match="/">\n')
    for name, sel in VAR_DEFS:
        out.append('<xsl:variable name="%s" select="%s"/>\n' % (name, xml_attr(sel)))
    for select, position, cases in groups:
        out.append('<xsl:for-each select="%s"><xsl:if test="position()=%d">\n' % (xml_attr(select), position))
        out.append('<xsl:text>&#10;@@c%d|</xsl:text><xsl:call-template name="k"/>'
                   '|<xsl:value-of select="last()"/><xsl:text>&#10;</xsl:text>\n' % cases[0][0])
        for cid, expr, typ in cases:
            v = 'r%d' % cid
            out.append('<xsl:text>&#10;@@%d|</xsl:text><xsl:variable name="%s" select="(%s)"/>'
                       % (cid, v, xml_attr(expr)))
            out.append('<xsl:value-of select="exsl:object-type($%s)"/><xsl:text>|</xsl:text>' % v)
            if typ == 'number':
                out.append('<xsl:value-of select="$%s"/>|<xsl:value-of select="1 div $%s"/>' % (v, v))
            elif typ == 'string':
                out.append('<xsl:value-of select="string-length($%s)"/>|<xsl:value-of select="$%s"/>' % (v, v))
            elif typ == 'boolean':
                out.append('<xsl:value-of select="$%s"/>' % v)
            else:
                out.append('<xsl:for-each select="$%s">;<xsl:call-template name="k"/></xsl:for-each>' % v)
            out.append('<xsl:text>&#10;</xsl:text>\n')
        out.append('</xsl:if></xsl:for-each>\n')
    out.append('</xsl:template>\n</xsl:stylesheet>\n')
    return ''.join(out)


def parse_output(text, ids):
    """-> {case_id: (type, payload)}; payload: number -> (str, str_of_1_div),
    string -> str, boolean -> bool, node-set -> frozenset(keys)."""
    res = {}
    pos = 0
    for line in text.split('\n'):
        if line.startswith('@@c'):
            k, _, rest = line.partition('|')
            res.setdefault('ctx', {})['\n' + k + '|'] = rest
    for cid in ids:
        tag = '\n@@%d|' % cid
        i = text.find(tag, pos)
        if i < 0:
            continue
        i += len(tag)
        j = text.index('|', i)
        typ = text[i:j]
        j += 1
        try:
            if typ == 'string':
                k = text.index('|', j)
                n = int(text[j:k])
                val = text[k + 1:k + 1 + n]
                end = k + 1 + n
                if text[end:end + 1] != '\n':
                    val = ('?garbled', text[k + 1:k + 60])
            elif typ == 'number':
                end = text.index('\n', j)
                a, b = text[j:end].split('|')
                val = (a, b)
            elif typ == 'boolean':
                end = text.index('\n', j)
                val = {'true': True, 'false': False}[text[j:end]]
            elif typ == 'node-set':
                end = text.index('\n', j)
                val = frozenset(x for x in text[j:end].split(';') if x)
            else:
                end = j
                val = ('?type', typ)
        except (ValueError, KeyError):
            val = ('?garbled', text[j:j + 60])
            end = j
        res[cid] = (typ, val)
        pos = end
    return res


# ---------------------------------------------------------------------------
# emulation of the documented libxml2 deviations (used ONLY to classify)
# ---------------------------------------------------------------------------
def libxml2_number_to_string(x):
    """xmlXPathFormatNumber of libxml2 2.9.x."""
    if x != x:
        return 'NaN'
    if x == rx.INF:
        return 'Infinity'
    if x == -rx.INF:
        return '-Infinity'
    if x == 0:
        return '0'
    if -2147483648 < x < 2147483647 and x == int(x):
        return str(int(x))
    a = abs(x)
    if a > 1e9 or a < 1e-5:
        s = '%.*e' % (14, x)
        mant, exp = s.split('e')
        if '.' in mant:
            mant = mant.rstrip('0').rstrip('.')
        sign = exp[0]
        digits = exp[1:].lstrip('0') or '0'
        # C prints at least two exponent digits
        if len(digits) < 2:
            digits = '0' + digits
        return mant + 'e' + sign + digits
    ip = int(math.log10(a))           # C: (int)log10(), truncation toward zero
    fp = 15 - ip - 1 if ip > 0 else 15 - ip
    s = '%0.*f' % (fp, x)
    if '.' in s:
        s = s.rstrip('0').rstrip('.')
    return s


_EXP_RE = rx.re.compile(r'^[ \t\r\n]*(-?)((?:[0-9]+(?:\.[0-9]*)?|\.[0-9]+))((?:[eE][-+]?[0-9]*)?)[ \t\r\n]*$')
_PLAIN_RE = rx.re.compile(r'^[ \t\r\n]*(-?)((?:[0-9]+(?:\.[0-9]*)?|\.[0-9]+))()[ \t\r\n]*$')


def libxml2_digits_to_double(text):
    """The digit accumulation of xmlXPathStringEvalNumber / xmlXPathCompNumber
    (not correctly rounded; at most 20 fraction digits after leading zeros)."""
    ip, _, fp = text.partition('.')
    ret = 0.0
    for c in ip:
        ret = ret * 10 + (ord(c) - 48)
    if fp:
        frac = 0
        i = 0
        while i < len(fp) and fp[i] == '0':
            frac += 1
            i += 1
        mx = frac + 20
        fraction = 0.0
        while i < len(fp) and frac < mx:
            fraction = fraction * 10 + (ord(fp[i]) - 48)
            frac += 1
            i += 1
        fraction /= math.pow(10.0, frac)
        ret = ret + fraction
    return ret


_MINUS_RE = rx.re.compile(r'^[ \t\r\n]*-[ \t\r\n]*$')
_MINUS_EXP_RE = rx.re.compile(r'^[ \t\r\n]*-(?:[eE][-+]?[0-9]*)?[ \t\r\n]*$')


def make_s2n(accept_exp, sloppy, lone_minus):
    def s2n(s):
        m = (_EXP_RE if accept_exp else _PLAIN_RE).match(s)
        if m is None:
            if lone_minus and (_MINUS_EXP_RE if accept_exp else _MINUS_RE).match(s):
                return -0.0               # '-', and with strnum-exp also '-e', '-E+1'
            return rx.NaN
        sign, digits, exp = m.groups()
        if exp and not exp.lstrip('eE+-'):
            exp = ''                      # '1e', '1e+': exponent marker without digits
        if sloppy:
            v = libxml2_digits_to_double(digits)
            if exp:
                try:
                    v = v * math.pow(10.0, float(int(exp[1:])))
                except OverflowError:
                    v = rx.INF
        else:
            try:
                v = float(digits + exp)
            except (ValueError, OverflowError):
                return rx.NaN
        return -v if sign else v
    return s2n


def libxml2_following(n):
    if n.kind in ('attribute', 'namespace'):
        n = n.parent
    return _orig_following(n)


def libxml2_preceding(n):
    out = _orig_preceding(n)
    m = n.parent if n.kind in ('attribute', 'namespace') else n
    if m.parent is not None and m.parent.kind == 'root':
        first = m.parent.children[0]
        if first is not m and first.kind == 'element' and first.children:
            out = [x for x in out if x is not first]
    return out


def libxml2_lang(node, arg):
    if node.kind == 'namespace':
        return False
    return _orig_lang(node, arg)


class IdList(list):
    """result of the emulated id(): token order, not document order"""
    pass


def make_libxml2_id(leading_ws, token_order):
    def lx_id(node, v):
        ws = ' \t\r\n'
        doc = node.doc
        strs = [n.string_value() for n in v] if isinstance(v, list) else [rx.to_string(v)]
        out = []
        for s in strs:
            toks = [t for t in rx._XML_WS_SPLIT.split(s) if t]
            if leading_ws and s[:1] != '' and s[:1] in ws and toks:
                toks = toks[1:]       # first token keeps its leading blanks -> never found
            for t in toks:
                el = doc.ids.get(t)
                if el is not None and not any(el is x for x in out):
                    out.append(el)
        if token_order:
            return IdList(out)
        return _orig_make_nodeset(out)
    return lx_id


def libxml2_make_nodeset(nodes):
    if isinstance(nodes, IdList):
        return nodes
    return _orig_make_nodeset(nodes)


def libxml2_to_string(v):
    if isinstance(v, IdList):
        v = _orig_make_nodeset(v)     # xmlXPathCastNodeSetToString sorts first
    return _orig_to_string(v)


_orig_make_nodeset = rx.make_nodeset
_orig_to_string = rx.to_string
_synthetic_ns = {}


def libxml2_namespace_axis(n):
    out = _orig_namespace(n)
    if n.kind != 'element':
        return out
    a = n
    while a is not None and a.kind == 'element':
        d = dict(a.nsdecls)
        if '' in d:
            if d[''] == '':
                x = _synthetic_ns.get(n)
                if x is None:
                    x = model.Node('namespace', n.doc, n)
                    x.local = x.qname = ''
                    x.value = ''
                    x.key = n.key + '/ns:'
                    x.order = n.order
                    x.skey = (n.doc.docnum, n.order + 0.5)
                    _synthetic_ns[n] = x
                out = out + [x]
            break
        a = a.parent
    return out


class OrderTrigger(Exception):
    pass


def _inside(x, s):
    if x.kind == 'attribute':
        x = x.parent
        if x is s:
            return False          # attributes OF s are sorted correctly
    x = x.parent
    while x is not None:
        if x is s:
            return True
        x = x.parent
    return False


def docorder_hook(v):
    """Raise OrderTrigger if v is a node-set that libxml2 2.9.14 does not sort
    into document order (see 'docorder' in the module docstring)."""
    if any(n.kind == 'namespace' for n in v):
        raise OrderTrigger('namespace node in an ordered node-set')
    for t in v:
        if t.kind in ('text', 'comment', 'pi') and t.parent is not None:
            sibs = t.parent.children
            i = rx._index_of(sibs, t)
            s_el = None
            for j in range(i - 1, -1, -1):
                if sibs[j].kind == 'element':
                    s_el = sibs[j]
                    break
            if s_el is None:
                continue
            for x in v:
                if x.kind in ('element', 'attribute') and _inside(x, s_el):
                    raise OrderTrigger('non-element node after element sibling vs. its descendants')


def libxml2_call(e, node, pos, size, env):
    # number() without argument: xmlNodeGetContent() is NULL for a PI without
    # data and xmlXPathStringEvalNumber(NULL) is 0
    if e[1] is None and e[2] == 'number' and not e[3] and node.kind == 'pi' and node.value == '':
        return 0.0
    return _orig_call(e, node, pos, size, env)


def libxml2_compare(op, a, b):
    # node-set = / != node-set: the content of a PI without data is NULL, and
    # xmlStrEqual(NULL, "") is false (NULL equals only NULL)
    if isinstance(a, list) and isinstance(b, list) and op in ('=', '!='):
        def val(n):
            return None if (n.kind == 'pi' and n.value == '') else n.string_value()
        sb = [val(n) for n in b]
        for x in a:
            xs = val(x)
            for ys in sb:
                if (xs == ys) if op == '=' else (xs != ys):
                    return True
        return False
    return _orig_compare(op, a, b)


_orig_compare = rx.compare
_orig_call = rx._call
_orig_following = rx._AXIS_FN['following']
_orig_namespace = rx._AXIS_FN['namespace']
_orig_preceding = rx._AXIS_FN['preceding']
_orig_n2s = rx.number_to_string
_orig_s2n = rx.string_to_number
_orig_lit = rx._literal_to_number
_orig_lang = rx.xp_lang
_orig_id = rx.xp_id

LIBXML2_CLASSES = ['numfmt', 'follow-attr', 'strnum-exp', 'strnum-minus', 'numparse', 'lang-ns',
                   'preceding-docelem', 'id-leading-ws', 'id-order', 'ns-undecl', 'number0-empty-pi']


def set_emulation(classes):
    rx.number_to_string = libxml2_number_to_string if 'numfmt' in classes else _orig_n2s
    rx._AXIS_FN['following'] = libxml2_following if 'follow-attr' in classes else _orig_following
    rx._AXIS_FN['preceding'] = libxml2_preceding if 'preceding-docelem' in classes else _orig_preceding
    if 'strnum-exp' in classes or 'numparse' in classes or 'strnum-minus' in classes:
        rx.string_to_number = make_s2n('strnum-exp' in classes, 'numparse' in classes,
                                       'strnum-minus' in classes)
    else:
        rx.string_to_number = _orig_s2n
    rx._literal_to_number = libxml2_digits_to_double if 'numparse' in classes else _orig_lit
    rx.xp_lang = libxml2_lang if 'lang-ns' in classes else _orig_lang
    rx._call = libxml2_call if 'number0-empty-pi' in classes else _orig_call
    rx.compare = libxml2_compare if 'number0-empty-pi' in classes else _orig_compare
    rx._AXIS_FN['namespace'] = libxml2_namespace_axis if 'ns-undecl' in classes else _orig_namespace
    if 'id-leading-ws' in classes or 'id-order' in classes:
        rx.xp_id = make_libxml2_id('id-leading-ws' in classes, 'id-order' in classes)
    else:
        rx.xp_id = _orig_id
    rx.make_nodeset = libxml2_make_nodeset if 'id-order' in classes else _orig_make_nodeset
    rx.to_string = libxml2_to_string if 'id-order' in classes else _orig_to_string


# ---------------------------------------------------------------------------
# running and comparing
# ---------------------------------------------------------------------------
def run_xsltproc(xsl_text, doc_path, tmpdir, tag):
    xp = os.path.join(tmpdir, 's%s.xsl' % tag)
    with open(xp, 'w', encoding='utf-8') as f:
        f.write(xsl_text)
    p = subprocess.run(['xsltproc', '--nonet', xp, doc_path], stdout=subprocess.PIPE,
                       stderr=subprocess.PIPE, timeout=120)
    return p.returncode, p.stdout.decode('utf-8', 'replace'), p.stderr.decode('utf-8', 'replace')


def run_groups(groups, doc_path, tmpdir, tag='0'):
    """-> ({cid: (type, payload)}, {cid: stderr}) ; splits on failure."""
    ids = [c[0] for g in groups for c in g[2]]
    if not ids:
        return {}, {}
    rc, out, err = run_xsltproc(build_stylesheet(groups), doc_path, tmpdir, tag)
    if rc == 0:
        return parse_output(out, ids), {}
    if len(ids) == 1:
        return parse_output(out, ids), {ids[0]: 'rc=%d %s' % (rc, err.strip()[:300])}
    # split: halves of the flattened case list, keeping their group
    flat = [(g[0], g[1], c) for g in groups for c in g[2]]
    h = len(flat) // 2
    res, errs = {}, {}
    for k, part in enumerate((flat[:h], flat[h:])):
        gs = []
        for sel, pos, c in part:
            if gs and gs[-1][0] == sel and gs[-1][1] == pos:
                gs[-1][2].append(c)
            else:
                gs.append((sel, pos, [c]))
        r, e = run_groups(gs, doc_path, tmpdir, tag + str(k))
        cx = dict(res.get('ctx', {}))
        cx.update(r.get('ctx', {}))
        res.update(r)
        res['ctx'] = cx
        errs.update(e)
    return res, errs


def out_text_find(res, tag):
    return res.get('ctx', {}).get(tag)


def parse_lx_number(s):
    if s == 'NaN':
        return rx.NaN
    if s == 'Infinity':
        return rx.INF
    if s == '-Infinity':
        return -rx.INF
    return float(s)


def ref_value(v):
    """reference result -> (type, comparable payload)"""
    t = rx.type_name(v)
    if t == 'node-set':
        return t, frozenset(n.key for n in v)
    return t, v


def agree(mine, theirs, exact_numfmt=False):
    mt, mv = mine
    tt, tv = theirs
    if mt != tt:
        return False
    if isinstance(tv, tuple) and tv and isinstance(tv[0], str) and tv[0].startswith('?'):
        return False
    if mt == 'number':
        try:
            a = parse_lx_number(tv[0])
        except ValueError:
            return False
        if mv != mv:
            return a != a
        if a != a:
            return False
        if mv in (rx.INF, -rx.INF) or a in (rx.INF, -rx.INF):
            return mv == a
        if mv == 0:
            inv = 'Infinity' if math.copysign(1.0, mv) > 0 else '-Infinity'
            return a == 0 and tv[1] == inv
        return abs(a - mv) <= 1e-14 * abs(mv)
    return mv == tv


def eval_ref(ast, node, pos, size, variables):
    ctx = rx.Context(node, pos, size, variables, NSMAP, {})
    try:
        return ref_value(rx.evaluate(ast, ctx))
    except (rx.XPathDynamicError, rx.XPathStaticError) as e:
        return ('error', '%s: %s' % (type(e).__name__, e))


def run_batch(args):
    seed, ncases, depth = args
    rnd = random.Random(seed)
    stats = {'cases': 0, 'agree': 0, 'classes': {}, 'unexplained': [], 'types': {}, 'nonempty': 0,
             'ref_time': 0.0, 'ref_evals': 0}
    while True:
        text = DocGen(rnd).document()
        doc = model.parse_document(text)
        if len(doc.nodes(True, False)) >= 14:
            break
    root = doc.root
    allnodes = doc.nodes(True, True)
    gen = ExprGen(rnd, doc)
    rootctx = rx.Context(root, 1, 1, {}, NSMAP, {})
    def compute_variables():
        vs = {}
        for name, sel in VAR_DEFS:
            vs[name] = rx.evaluate(rx.parse(sel), rootctx)
        return vs
    variables = compute_variables()
    ngroups = max(1, ncases // 20)
    groups = []
    meta = {}
    cid = 0
    for g in range(ngroups):
        if rnd.random() < 0.55:
            node = rnd.choice(allnodes)
            sel, pos, size = key_to_path(node.key), 1, 1
            lst = [node]
        else:
            lsel = rnd.choice(CTX_LISTS)
            lst = rx.evaluate(rx.parse(lsel), rootctx)
            if not lst:
                node, sel, pos, size, lst = root, '/', 1, 1, [root]
            else:
                pos = rnd.randint(1, len(lst))
                size = len(lst)
                node = lst[pos - 1]
                sel = lsel
        cases = []
        for _ in range(ncases // ngroups):
            expr = gen.top(rnd.choice([1, 2, 3, 3, 4]))
            ast = rx.parse(expr)
            t0 = time.perf_counter()
            mine = eval_ref(ast, node, pos, size, variables)
            stats['ref_time'] += time.perf_counter() - t0
            stats['ref_evals'] += 1
            cases.append((cid, expr, mine[0]))
            meta[cid] = (expr, ast, node, pos, size, mine)
            cid += 1
        groups.append((sel, pos, cases))
    with tempfile.TemporaryDirectory(prefix='xpdiff', dir='/dev/shm' if os.path.isdir('/dev/shm') else None) as td:
        dp = os.path.join(td, 'd.xml')
        with open(dp, 'w', encoding='utf-8') as f:
            f.write(text)
        res, errs = run_groups(groups, dp, td)
    badctx = set()
    for sel, pos, cases in groups:
        first = cases[0][0]
        tag = '\n@@c%d|' % first
        i = out_text_find(res, tag)
        exp = '%s|%d' % (meta[first][2].key, meta[first][4])
        if i is not None and i != exp:
            for cc in cases:
                badctx.add(cc[0])
    for c, (expr, ast, node, pos, size, mine) in meta.items():
        if c in badctx:
            stats['classes']['ctx-order(libxslt for-each order)'] = \
                stats['classes'].get('ctx-order(libxslt for-each order)', 0) + 1
            continue
        stats['cases'] += 1
        stats['types'][mine[0]] = stats['types'].get(mine[0], 0) + 1
        if mine[0] == 'node-set' and mine[1]:
            stats['nonempty'] += 1
            ah = stats.setdefault('axes', {})
            for ax in rx.AXES:
                if ax + '::' in expr.replace(' ', ''):
                    ah[ax] = ah.get(ax, 0) + 1
        theirs = res.get(c)
        if theirs is None:
            theirs = ('missing', errs.get(c, 'no output'))
        if mine[0] != 'error' and agree(mine, theirs):
            stats['agree'] += 1
            continue
        # try to explain by a documented deviation class
        def emulated(sub):
            set_emulation(sub)
            try:
                return eval_ref(rx.parse(expr), node, pos, size, compute_variables())
            finally:
                set_emulation([])
        label = None
        for k in LIBXML2_CLASSES:
            em = emulated([k])
            if em[0] != 'error' and agree(em, theirs):
                label = k
                break
        if label is None:
            em = emulated(LIBXML2_CLASSES)
            if em[0] != 'error' and agree(em, theirs):
                sub = list(LIBXML2_CLASSES)
                for k in LIBXML2_CLASSES:          # greedy minimisation
                    trial = [x for x in sub if x != k]
                    em = emulated(trial)
                    if em[0] != 'error' and agree(em, theirs):
                        sub = trial
                label = '+'.join(sub)
        if label is None and mine[0] == theirs[0]:
            # order-sensitive use of a node-set that libxml2 mis-sorts? (cannot be emulated)
            for sub in ([], LIBXML2_CLASSES):
                set_emulation(sub)
                rx._order_hook = docorder_hook
                try:
                    eval_ref(rx.parse(expr), node, pos, size, compute_variables())
                except OrderTrigger:
                    label = 'docorder (trigger detected, not emulated)'
                finally:
                    rx._order_hook = None
                    set_emulation([])
                if label:
                    break
        if label is not None:
            stats['classes'][label] = stats['classes'].get(label, 0) + 1
            ex = stats.setdefault('examples', {})
            if label not in ex:
                ex[label] = (expr, node.key, repr(mine)[:120], repr(theirs)[:120])
        else:
            stats['unexplained'].append({
                'seed': seed, 'doc': text, 'ctx': node.key, 'pos': pos, 'size': size,
                'expr': expr, 'ref': repr(mine)[:300], 'libxml2': repr(theirs)[:300],
                'err': errs.get(c)})
    return stats


# ---------------------------------------------------------------------------
# syntax differential: does libxml2 accept the same strings as the reference
# parser?  Oracle on the libxml2 side: exsl:object-type(dyn:evaluate(W)) with
# W = "true() or (" + E + ")" is 'boolean' iff W compiled ('or' short-circuits,
# so nothing of E is evaluated); the reference parses the same W.
# ---------------------------------------------------------------------------
SYNTAX_FIXED = [
    '1', '1e3', '1E3', '1.5e-3', '1 +', 'a[/]', '- - 1', '--1', '$ x', '$x', '. ..', '.[1]', '..[1]',
    'a div div div b', 'div div div', '* * *', 'foo()', 'child :: a', 'a [ 1 ]', '(/ | @i)', '/ or x',
    '5.', '.5', '1.5.3', 'a:b:c', 'a: b', 'a :b', 'p: *', 'p:*', 'text ()', "text('x')",
    "processing-instruction ( 'x' )", 'processing-instruction(x)', "a/id('x')", 'a mod(3)', '3div 4',
    '3 div4', 'a-b', 'a -b', '1 ! = 2', '1 != 2', '@', '@@a', 'a//', '//', '/', 'a|', '|a', '()',
    '(1)(2)', '1 2', "'a", '"a\'b"', 'foo:bar(1)', 'child::', 'child::.', 'self::node()[1]', 'foo::a',
    '@child::a', 'attribute::@a', '1--1', '1-+1', '+1', 'a/b/', 'a[]', 'a[1][2]', 'a[1]b',
    "id('a')[1]/b", '$x/a', '$x[1]', '$x(1)', '1[1]', "'a'[1]", "'a'/b", '(1)/b', 'f()/b', 'node()',
    'node(1)', 'node', 'comment', 'and', 'and and and', 'or or or', 'mod mod mod', '@and and @or',
    'a/*/b', 'a/ * /b', '2 * 3', '2*3', '*', '**', '***', '****', 'a,b', 'f(a,)', 'f(,a)', 'f(a b)',
    '1 < 2 < 3', '1 = 2 = 3', '../..', '.../a', '..a', '.a', 'a.b', 'a..b', 'a.', '1.', '1..', '1.e',
    'a=-1', '-a', '-a|b', '-(a|b)', 'a|-b', '//@*', '@*:a', '*:a', '@a:*', '@xml:lang',
    'ancestor-or-self::*', 'ancestor-or-self ::*', 'ancestor -or-self::*', 'a\tb', 'a\n/b', 'a b',
    '/ * 3', '/ div 2', '(/) * 3', '/*', '/ *', 'a/ /b', 'a//b', 'a/ /', '$x:y', '$x :y', '$x: y', '$x:*',
    'a | /', '/ | a', '/|/', 'a[/ and /]', 'a[/=/]', '/=/', '/</', '/ = /', '/ < /', '/ + 1', '1 + /',
    'a/.', 'a/..', './.', './/.', '..//..', './/@a', '@a/@b', 'a/@b/c', '@a[1]', '@*[1]', 'text()[1]',
    'node()/node()', 'child::text()', 'child::text', 'attribute::node()', 'namespace::*', 'namespace::a:*',
    'descendant-or-self::node()', 'descendant-or-self::node', 'self::a:b', 'self::*:b',
    "concat('a', 'b')", "concat('a' 'b')", "concat('a',, 'b')", 'last ( )', 'last() ()', 'position() = 1',
    'true()', 'true', 'true()[1]', 'not(1)', 'not 1', 'not(1', 'not)1(', 'div(1)', 'a div(1)', 'mod:a', 'a mod:a',
    'a and:b', 'and:b', 'a and-b', 'a and -b', 'a and.5', 'a and .5', 'a and(b)', 'and(b)', 'or(1)',
    '1 div 0', '1 div0', '1div 0', '1div0', '1 mod 2', '1mod 2', '.5div 1', '5.div 1', "'a'and'b'", '1and 2',
    '1or 2', '1 or2', '(1)or(2)', '(1)and(2)', '(a)div(b)', '(a)mod(b)', 'a*b', 'a *b', 'a* b', '@a*@b',
    '@a*2', '2*@a', '$x*2', '$x *2', '2*$x', '.*2', '..*2', 'text()*2', "'a'*2", '(a)*2', 'a[1]*2', '*[1]*2',
    '**2', '2**', '2***', '* * 2', '*|*', '*/*', '*//*', '*[*]', '*=*', '*<*', '* div *', '* mod *', '*and*',
    '* and *', '- *', '-*', '--*', '*-*', '* - *', '*-1', '* -1', 'a-1', 'a -1', 'a- 1', '1-a', '1 -a',
    'é', 'é:é', 'a·', '·a', 'à', '̀a', '_a', 'a_', '-a-', '.a.', 'a.-', '_', '__:__',
    'a b', 'a ', ' a', 'a\x0cb', "' '", 'a\r\n', ' a ', '', ' ', '(', ')', '[', ']', ',', ':', '::', '!', '!=',
    '=', '<', '>', '<=', '>=', '|', '+', '-', '$', '#', '%', '&', '~', '`', '^', '{', '}', ';', '\\', '?',
    '1 = = 2', '1 < = 2', '1 > = 2', '1 <> 2', '1 == 2', '1 =! 2', '1 ! 2', '/ /', '/ / a', '// a', '/ a',
    'a / b', 'a // b', "''", '""', "'''", "''''", "'a''b'", '"a""b"', "'a'\"b\"", '\'a\' "b"',
    '0', '00', '0.0', '.0', '0.', '0..0', '.', '..', '...', '....', '.1.', '.1.1', '1.1.', '1e', 'e1', '1e+1', '1e-1',
    '1E1', '0x1', '1_000', '1,000', '1f', '1d', '1L', 'Infinity', 'NaN', '-Infinity', '-NaN',
    'a[1', 'a]1', 'a[[1]]', 'a[(1)]', 'a[1][', 'a[1]]', '(a', 'a)', '((a))', '(((a)))', '(a))', '((a)',
    '(a)[1]', '(a)[1][2]', '(a)[1]/b', '(a)[1]//b', '(a)/b[1]', '(a)b', '(a)(b)', '(a)|(b)', '(a|b)/c',
    '(a|b)[1]', 'a|b/c', 'a|b[1]', '(a)|b', 'a|(b)', '-a|-b', '(-a)|b', 'a|(-b)', "'a'|b", '1|2', '$x|$y',
    'f()|g()', 'f()[1]|g()', "id('a')|id('b')", "id('a')/b|c", 'a/(b|c)', 'a/(b)', '/(a)', '//(a)',
    'a/$x', 'a/f()', 'a/1', "a/'b'", 'a/-b', 'a/[1]', 'a//[1]', 'a/@', 'a/@[1]', 'a/::b', '::a', 'a::',
    'child::child::a', 'child::a::b', 'child::*::b', 'child::a:b', 'child::a:*', 'child::*:*', 'child:a',
    'child:::a', 'child: :a', 'child : : a', 'child::(a)', 'child::[1]', 'child::*[1]', 'child::1', "child::'a'",
    'child::$x', 'child::f()', 'child::node()', 'child::node ()', 'child::node( )', 'child::node(())',
    'child::processing-instruction()', "child::processing-instruction('a')", 'child::processing-instruction("a")',
    "child::processing-instruction('a', 'b')", 'child::processing-instruction(1)', 'child::processing-instruction(a)',
    "child::comment('a')", "child::text('a')", "child::node('a')", 'processing-instruction', 'processing-instruction::a',
    'processing-instruction:a', 'processing-instruction/a', 'processing-instruction[1]',
]


SYNTAX_FIXED_NONASCII = [
    '\u00e9', '\u00e9:\u00e9', 'a\u00b7', '\u00b7a', 'a\u0300', '\u0300a', 'a\u2003b', 'a\u00a0', '\u00a0a',
    "'\u00a0'", '\u4e00', '\u0660', 'a\u0660', '\u3007', '\U00010400', 'a\U00010400', '\u2160', '\u212e',
    '\u00d7', '\u00f7', '\u037e', '\u2028a', '\ufeffa', '\u200ba',
]


def mutate(rnd, expr):
    try:
        toks = rx.tokenize(expr)
    except rx.XPathSyntaxError:
        toks = []
    k = rnd.random()
    if toks and k < 0.6:
        spans = [(t.pos, (toks[i + 1].pos if i + 1 < len(toks) else len(expr))) for i, t in enumerate(toks)]
        i = rnd.randrange(len(spans))
        a, b = spans[i]
        piece = expr[a:b]
        m = rnd.random()
        if m < 0.3:
            return expr[:a] + expr[b:]
        if m < 0.5:
            return expr[:a] + piece + ' ' + piece + expr[b:]
        if m < 0.7 and i + 1 < len(spans):
            c, d = spans[i + 1]
            return expr[:a] + expr[c:d] + ' ' + piece + expr[d:]
        ins = rnd.choice(['*', 'div', 'and', 'or', 'mod', '/', '//', '|', '-', '+', '=', '!=', '<', '(', ')',
                          '[', ']', '@', '::', '.', '..', ',', '$x', '1', '1.5', '.5', "'s'", 'a', 'p:a', 'p:*',
                          'text()', 'node()', 'child::', 'f(', '$', ':', '1e1', ' '])
        return expr[:a] + ins + ' ' + expr[a:] if m < 0.9 else expr[:b].rstrip() + ins + expr[b:]
    if not expr:
        return rnd.choice(['', ' ', '/', '.'])
    i = rnd.randrange(len(expr) + 1)
    m = rnd.random()
    if m < 0.35:
        return expr[:i] + expr[i + 1:]
    if m < 0.7:
        return expr[:i] + rnd.choice(' \t():[]/*-.@$,|=<>!\'"1e:a') + expr[i:]
    return expr[:i].rstrip() + expr[i:].lstrip() if rnd.random() < 0.5 else expr[:i] + ' ' + expr[i:]


def xml_text(s):
    return s.replace('&', '&amp;').replace('<', '&lt;').replace('>', '&gt;').replace('\r', '&#13;')


SYNTAX_XSL = """<xsl:stylesheet version="1.0" xmlns:xsl="http://www.w3.org/1999/XSL/Transform"
 xmlns:dyn="http://exslt.org/dynamic" xmlns:exsl="http://exslt.org/common" xmlns:p="urn:p" xmlns:q="urn:q" xmlns:d="urn:d">
<xsl:output method="text" encoding="UTF-8"/>
<xsl:template match="/"><xsl:variable name="x" select="/.."/><xsl:variable name="vset" select="/.."/>
<xsl:variable name="vn" select="1"/><xsl:variable name="vs" select="1"/><xsl:variable name="vb" select="1"/><xsl:variable name="vempty" select="1"/>
<xsl:for-each select="/*/e"><xsl:value-of select="@n"/>=<xsl:value-of
 select="exsl:object-type(dyn:evaluate(concat('true() or (', ., ')')))"/><xsl:text>&#10;</xsl:text></xsl:for-each>
</xsl:template></xsl:stylesheet>
"""

_LEGAL = rx.re.compile('^[\\t\\n\\r\\x20-\\ud7ff\\ue000-\\ufffd\\U00010000-\\U0010ffff]*$')


_WSX = '[ \\t\\r\\n]'
_REWRITES = [
    # (class, [(regex, replacement) alternatives]) -- each turns a libxml2 leniency into strict syntax
    ('exp-literal', [(r'((?:[0-9]+\.?[0-9]*|\.[0-9]+))[eE][-+]?[0-9]*', r'\1')]),
    ('ws-in-qname', [(r'(?<!:)' + _WSX + r'*:' + _WSX + r'*(?!:)', ':')]),
    ('repeated-slash', [(r'/(?:' + _WSX + r'*/)+', '//'), (r'/(?:' + _WSX + r'*/)+', '/')]),
    ('opname-fused', [(r'(?<![A-Za-z_\-:$@\u0080-\uffff])(div|mod|and|or)(?=[\w.\-])', r'\1 ')]),
]


def _sub_subsets(rgx, rep, v):
    """v with the substitution applied to every non-empty subset of the matches"""
    ms = list(rx.re.finditer(rgx, v))
    if not ms:
        return []
    if len(ms) > 5:
        return [rx.re.sub(rgx, rep, v)]
    out = []
    for mask in range(1, 1 << len(ms)):
        parts = []
        last = 0
        for k, m in enumerate(ms):
            if mask >> k & 1:
                parts.append(v[last:m.start()])
                parts.append(m.expand(rep))
                last = m.end()
        parts.append(v[last:])
        out.append(''.join(parts))
    return out


def syntax_signature(e):
    """Documented lexical leniencies of libxml2's XPath compiler: e is explained
    by a set of classes iff rewriting exactly those leniencies away yields a
    string the reference parser accepts.  Returns the class list or []."""
    import itertools
    n = len(_REWRITES)
    for size in range(1, n + 1):
        for combo in itertools.combinations(range(n), size):
            variants = ['true() or (' + e + ')']
            for i in combo:
                nxt = []
                for v in variants:
                    for rgx, rep in _REWRITES[i][1]:
                        nxt.extend(_sub_subsets(rgx, rep, v))
                variants = nxt[:400]
            for v in variants:
                try:
                    rx.parse(v)
                    return [_REWRITES[i][0] for i in combo]
                except rx.XPathSyntaxError:
                    pass
    return []


def run_syntax_batch(args):
    seed, n, fixed = args
    rnd = random.Random(seed)
    gen = ExprGen(rnd)
    exprs = []
    if fixed:
        exprs.extend(x for x in SYNTAX_FIXED + SYNTAX_FIXED_NONASCII if _LEGAL.match(x))
    while len(exprs) < n:
        e = gen.top(rnd.choice([1, 2, 2, 3]))
        for _ in range(rnd.choice([0, 1, 1, 2, 3])):
            e = mutate(rnd, e)
        if _LEGAL.match(e):
            exprs.append(e)
    doc = '<t>' + ''.join('<e n="%d">%s</e>' % (i, xml_text(e)) for i, e in enumerate(exprs)) + '</t>'
    with tempfile.TemporaryDirectory(prefix='xpsyn', dir='/dev/shm' if os.path.isdir('/dev/shm') else None) as td:
        dp = os.path.join(td, 'd.xml')
        with open(dp, 'w', encoding='utf-8') as f:
            f.write(doc)
        rc, out, err = run_xsltproc(SYNTAX_XSL, dp, td, 'syn')
    theirs = {}
    for line in out.split('\n'):
        k, _, v = line.partition('=')
        if k.isdigit():
            theirs[int(k)] = (v == 'boolean')
    st = {'n': 0, 'valid': 0, 'agree': 0, 'classes': {}, 'unexplained': []}
    for i, e in enumerate(exprs):
        w = 'true() or (' + e + ')'
        try:
            rx.parse(w)
            mine = True
        except rx.XPathSyntaxError:
            mine = False
        st['n'] += 1
        st['valid'] += mine
        lx = theirs.get(i)
        if lx is None:
            st['unexplained'].append((e, mine, 'no output'))
        elif lx == mine:
            st['agree'] += 1
        else:
            sig = syntax_signature(e) if (lx and not mine) else []
            if sig:
                k = 'syntax:' + '+'.join(sig)
                st['classes'][k] = st['classes'].get(k, 0) + 1
            else:
                st['unexplained'].append((e, mine, lx))
    return st


# ---------------------------------------------------------------------------
# optional: XSLT match patterns (parse_pattern / pattern_matches) against
# libxslt's template matcher.  Exploratory: libxslt's matcher is not
# evaluation-based and has deviations of its own; disagreements are listed,
# they do not affect the exit status unless --patterns-strict is given.
# ---------------------------------------------------------------------------
class PatternGen(object):
    def __init__(self, rnd, doc):
        self.r = rnd
        self.g = ExprGen(rnd, doc)

    def pred(self):
        r = self.r
        return '[%s]' % r.choice(['1', '2', 'last()', 'position()>1', 'position()=last()', 'position() mod 2 = 1', '@i', '@*', '*', 'text()',
                                  'not(*)', '@i>1', ".='1'", '..', 'self::*', 'node()', 'not(@*)', '.>1', "lang('en')", 'count(*)>1',
                                  'string()', 'last()-1', '1.5', '0', 'following-sibling::*', 'preceding-sibling::node()[1][self::text()]',
                                  "starts-with(name(), 'a')", 'ancestor::*[2]', 'count(../*) = 2', '../@i = @i', 'position() < last()'])

    def step(self):
        r = self.r
        k = r.random()
        if k < 0.25:
            s = r.choice(['@', '@', 'attribute::']) + r.choice(self.g.atttests)
        else:
            s = r.choice(['', '', '', 'child::']) + r.choice(self.g.nametests)
        for _ in range(r.choice([0, 0, 0, 1, 1, 2])):
            s += self.pred()
        return s

    def path(self):
        r = self.r
        k = r.random()
        if k < 0.04:
            return '/'
        head = ''
        if k < 0.15:
            head = '/'
        elif k < 0.27:
            head = '//'
        elif k < 0.37:
            head = r.choice(["id('k1')", "id('k2 k3')", 'id("k4 k1 k5")']) + r.choice(['/', '//', '', ''])
            if not head.endswith('/'):
                return head
        s = head + self.step()
        for _ in range(r.choice([0, 0, 1, 1, 2, 3])):
            s += r.choice(['/', '/', '//', ' / ']) + self.step()
        return s

    def pattern(self):
        return ' | '.join(self.path() for _ in range(self.r.choice([1, 1, 1, 2, 3])))


def run_pattern_batch(args):
    seed, n = args
    rnd = random.Random(seed)
    while True:
        text = DocGen(rnd).document()
        doc = model.parse_document(text)
        if len(doc.nodes(True, False)) >= 14:
            break
    pg = PatternGen(rnd, doc)
    pats = [pg.pattern() for _ in range(n)]
    targets = doc.nodes(True, False)
    ctx = rx.Context(doc.root, 1, 1, {}, NSMAP, {})
    mine = []
    for p in pats:
        pa = rx.parse_pattern(p)
        mine.append(frozenset(t.key for t in targets if rx.pattern_matches(pa, t, ctx)))

    def sheet(idx):
        out = ['<xsl:stylesheet version="1.0" xmlns:xsl="%s"' % XSL]
        for pfx, u in sorted(NSMAP.items()):
            out.append(' xmlns:%s="%s"' % (pfx, u))
        out.append('>\n<xsl:output method="text" encoding="UTF-8"/>\n' + KEY_TEMPLATE + '<xsl:template match="/">\n')
        for i in idx:
            out.append('<xsl:text>&#10;@@%d|</xsl:text><xsl:apply-templates select="//node() | //@* | /" mode="m%d"/>' % (i, i))
        out.append('<xsl:text>&#10;</xsl:text></xsl:template>\n')
        for i in idx:
            out.append('<xsl:template match="%s" mode="m%d" priority="10">;<xsl:call-template name="k"/></xsl:template>\n'
                       % (xml_attr(pats[i]), i))
            out.append('<xsl:template match="node()|@*|/" mode="m%d" priority="-10"/>\n' % i)
        out.append('</xsl:stylesheet>\n')
        return ''.join(out)
    theirs = {}
    errors = {}
    with tempfile.TemporaryDirectory(prefix='xppat', dir='/dev/shm' if os.path.isdir('/dev/shm') else None) as td:
        dp = os.path.join(td, 'd.xml')
        with open(dp, 'w', encoding='utf-8') as f:
            f.write(text)

        def go(idx, tag):
            rc, out, err = run_xsltproc(sheet(idx), dp, td, tag)
            if rc != 0 and len(idx) > 1:
                h = len(idx) // 2
                go(idx[:h], tag + 'a')
                go(idx[h:], tag + 'b')
                return
            if rc != 0:
                errors[idx[0]] = err.strip()[:200]
                return
            for line in out.split('\n'):
                if line.startswith('@@'):
                    k, _, rest = line[2:].partition('|')
                    theirs[int(k)] = frozenset(x for x in rest.split(';') if x)
        go(list(range(n)), 'p')
    st = {'n': n, 'agree': 0, 'matched': 0, 'dis': []}
    for i, p in enumerate(pats):
        if mine[i]:
            st['matched'] += 1
        if theirs.get(i) == mine[i]:
            st['agree'] += 1
        else:
            t = theirs.get(i)
            st['dis'].append((p, sorted(mine[i] - t) if t is not None else None, sorted(t - mine[i]) if t is not None else errors.get(i), text))
    return st


def main():
    ap = argparse.ArgumentParser()
    ap.add_argument('-n', '--cases', type=int, default=20000)
    ap.add_argument('-s', '--seed', type=int, default=1)
    ap.add_argument('-j', '--jobs', type=int, default=min(16, os.cpu_count() or 1))
    ap.add_argument('-b', '--batch', type=int, default=200, help='cases per xsltproc process')
    ap.add_argument('-v', '--verbose', action='store_true')
    ap.add_argument('--patterns', type=int, default=0, help='number of XSLT patterns to compare with libxslt (exploratory)')
    ap.add_argument('--syntax', type=int, default=20000, help='number of syntax-differential strings')
    ap.add_argument('--max-report', type=int, default=40)
    a = ap.parse_args()
    nb = (a.cases + a.batch - 1) // a.batch
    jobs = [(a.seed * 1000003 + i, a.batch, 3) for i in range(nb)]
    t0 = time.time()
    tot = {'cases': 0, 'agree': 0, 'classes': {}, 'unexplained': [], 'types': {}, 'nonempty': 0,
           'ref_time': 0.0, 'ref_evals': 0, 'examples': {}}
    with Pool(a.jobs) as pool:
        for st in pool.imap_unordered(run_batch, jobs):
            for k in ('cases', 'agree', 'nonempty', 'ref_time', 'ref_evals'):
                tot[k] += st[k]
            for k, v in st['classes'].items():
                tot['classes'][k] = tot['classes'].get(k, 0) + v
            for k, v in st['types'].items():
                tot['types'][k] = tot['types'].get(k, 0) + v
            for k, v in st.get('axes', {}).items():
                tot.setdefault('axes', {})
                tot['axes'][k] = tot['axes'].get(k, 0) + v
            for k, v in st.get('examples', {}).items():
                tot['examples'].setdefault(k, v)
            tot['unexplained'].extend(st['unexplained'])
    syn = {'n': 0, 'valid': 0, 'agree': 0, 'classes': {}, 'unexplained': []}
    if a.syntax:
        sjobs = [(a.seed * 1000003 + 500000 + i, 500, i == 0) for i in range((a.syntax + 499) // 500)]
        with Pool(a.jobs) as pool:
            for st in pool.imap_unordered(run_syntax_batch, sjobs):
                for k in ('n', 'valid', 'agree'):
                    syn[k] += st[k]
                for k, v in st['classes'].items():
                    syn['classes'][k] = syn['classes'].get(k, 0) + v
                syn['unexplained'].extend(st['unexplained'])
    dt = time.time() - t0
    print('cases            %d  (%d xsltproc batches, %.1f s wall)' % (tot['cases'], nb, dt))
    print('result types     %s ; non-empty node-sets %d' % (
        ', '.join('%s=%d' % kv for kv in sorted(tot['types'].items())), tot['nonempty']))
    print('axes in exprs with non-empty node-set result: %s' % (
        ', '.join('%s=%d' % kv for kv in sorted(tot.get('axes', {}).items()))))
    print('agree            %d' % tot['agree'])
    print('reference speed  %.3f ms / evaluation' % (1000.0 * tot['ref_time'] / max(1, tot['ref_evals'])))
    print('explained by documented libxml2 deviation classes:')
    for k, v in sorted(tot['classes'].items()):
        print('  %-28s %6d   e.g. %s' % (k, v, tot['examples'].get(k)))
    print('UNEXPLAINED      %d' % len(tot['unexplained']))
    for u in tot['unexplained'][:a.max_report]:
        print('---')
        for k in ('seed', 'ctx', 'pos', 'size', 'expr', 'ref', 'libxml2', 'err'):
            print('  %-8s %s' % (k, u[k]))
        if a.verbose:
            print('  doc      %s' % u['doc'].replace('\n', '\\n'))
    if a.patterns:
        pj = [(a.seed * 1000003 + 700000 + i, 50) for i in range((a.patterns + 49) // 50)]
        pt = {'n': 0, 'agree': 0, 'matched': 0, 'dis': []}
        with Pool(a.jobs) as pool:
            for st in pool.imap_unordered(run_pattern_batch, pj):
                for k in ('n', 'agree', 'matched'):
                    pt[k] += st[k]
                pt['dis'].extend(st['dis'])
        print('=== pattern differential (exploratory): %d patterns (%d match at least one node), agree %d, differ %d'
              % (pt['n'], pt['matched'], pt['agree'], len(pt['dis'])))
        buckets = {}
        rest = []
        for item in pt['dis']:
            pat = item[0]
            b = []
            if rx.re.search(r'id\((\'|")[^\'")]*[ \t][^\'")]*(\'|")\)', pat):
                b.append('id-multi-token')
            if rx.re.search(r'(@|attribute::)[\w:*.\-]+(\(\))?\[', pat):
                b.append('attr-predicate')
            if rx.re.search(r'(@|attribute::)[\w:*.\-]+(\(\))?(\[[^\]]*\])*[ ]*//?', pat):
                b.append('step-after-attribute')
            if rx.re.search(r'(^|\| )(child::)?[\w:*.\-]+(\(\))?(\[[^\]]*\])*[ ]*//', pat):
                b.append('relative-with-//')
            if b:
                k = '+'.join(b)
                buckets[k] = buckets.get(k, 0) + 1
            else:
                rest.append(item)
        for k, v in sorted(buckets.items()):
            print('  [%s] %d' % (k, v))
        print('  not bucketed: %d' % len(rest))
        for pat, only_ref, only_lx, text in rest[:a.max_report]:
            print('  %s\n     only reference: %s\n     only libxslt:   %s' % (pat, only_ref, only_lx))
            if a.verbose:
                print('     doc %s' % text.replace('\n', '\\n'))
    if a.syntax:
        print('=== syntax differential: %d strings (%d valid per the reference), agree %d' % (
            syn['n'], syn['valid'], syn['agree']))
        for k, v in sorted(syn['classes'].items()):
            print('  %-40s %6d' % (k, v))
        print('SYNTAX UNEXPLAINED %d' % len(syn['unexplained']))
        for e, mine, lx in syn['unexplained'][:a.max_report]:
            print('  %r: reference %s, libxml2 %s' % (e, 'accepts' if mine else 'rejects',
                                                     lx if isinstance(lx, str) else ('accepts' if lx else 'rejects')))
    return 1 if (tot['unexplained'] or syn['unexplained']) else 0


if __name__ == '__main__':
    sys.exit(main())
