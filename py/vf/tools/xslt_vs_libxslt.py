#!/usr/bin/env python3-vt
"""Differential self-test of vf.ref_xslt against libxslt (xsltproc).

    cd /verif/py && python3-vt -m vf.tools.xslt_vs_libxslt [-n CASES] [-s SEED] [-j JOBS]
                         [--deviant] [--show SEED] [-v]

Random (stylesheet modules, source document, external document, parameters)
cases are generated -- error-free and terminating by construction -- and run
through the reference interpreter and through xsltproc (one process per case).
The result trees are compared in the canonical event form of ref_xslt.dump()
(xsltproc's XML serialization is parsed back with vf.model).

Every disagreement is either attributed to one of the documented libxslt
deviation classes below (only if the case demonstrably exercises the trigger
of that class, which is detected by instrumentation of the reference run or
recorded by the generator) or reported as UNEXPLAINED.  Exit status 0 iff there
is no unexplained disagreement and no reference error.

===========================================================================
Documented libxslt 1.1.35 / libxml2 2.9.14 deviations from XSLT 1.0
(each decided by reading the Recommendation, never by majority; the name is
the trigger class printed by this tool; "dyn" = detected by instrumenting the
reference run of the very case, "gen" = flag set by the generator)
===========================================================================
 builtin-params (dyn, EMULATED: the reference is re-run passing parameters
             through the built-in rules and must then agree exactly)
             libxslt passes xsl:with-param values on through the built-in
             element/root rule.  Rec 5.8: the built-in rule is
             <xsl:apply-templates/> (mode kept) without parameters.
 attr-children (dyn)  <xsl:apply-templates/> (no select) with an attribute as
             current node processes the attribute's text (libxml2 stores the
             value as a child node).  XPath 5.3: attributes have no children.
 apply-imports-leaf (dyn)  xsl:apply-imports in a rule that was chosen for a
             text/comment/PI child by the BUILT-IN element rule fails with "no
             current template rule".  Rec 5.6: the chosen rule is current.
 apply-imports-builtin (dyn)  when xsl:apply-imports finds no imported rule
             and the built-in element rule runs, libxslt leaves its internal
             context node on the last processed child; later xsl:element /
             xsl:value-of / xsl:copy-of of the same template see that node as
             ".".  Rec 5.6/5.1: the current node is unchanged.
 apply-imports-sibling (dyn)  xsl:apply-imports also considers rules of lower
             import precedence that the containing stylesheet does NOT import
             (siblings in the import tree).  Rec 5.6: "only template rules that
             were imported into the stylesheet element containing the current
             template rule".
 global-lazy-context (dyn)  a global variable first referenced while another
             global is being evaluated is evaluated with the current node of
             the referencing instruction.  Rec 11.4: current node = root of
             the source document, current node list = that node alone.
 sort-secondary-position (dyn)  position()/last() in the 2nd.. sort key are
             computed lazily on the partially sorted list.  Rec 10: "the
             complete list of nodes being processed in unsorted order".
 root-eq-hash (dyn, libxml2)  = / != with a root node (document or result tree
             fragment) whose children are not exactly one element: libxml2
             pre-filters with a hash of the document ELEMENT's text, so
             "$rtf = 't'" for <o/>t and '' = RTF without element are false.
             XPath 3.4 / XSLT 11.1: string-value of the root node.
 rtf-empty-boolean (dyn)  boolean() of an EMPTY result tree fragment is false.
             XSLT 11.1: a fragment is a node-set with one root node -> true.
 rtf-base-uri (dyn)  document(rel, $nodes-of-a-fragment) does not resolve.
             XSLT 11.2: their base URI is that of the variable-binding element.
 document-base-module (dyn)  document('x') / document('') in an expression
             of an imported/included module (notably in xsl:param defaults)
             resolves against the main stylesheet.  Rec 12.1: base URI of the
             stylesheet node containing the expression.
 pattern-attr-ns (dyn)  match="@k" also matches p:k (attribute name tests
             ignore the namespace).  XPath 2.3: unprefixed = null namespace.
 pattern-pos-samelocal (dyn)  positional predicates in patterns count
             siblings by LOCAL name when siblings share a local name in
             different namespaces (b[2] with <p:b/><b/>).
 pattern-deviant (gen, --deviant only)  the families found by
             xpath_vs_libxml2 --patterns: id() with several tokens, predicates
             on attribute steps, steps after attribute steps, relative patterns
             with '//', '/a[p][q]'.
 attr-ns-prefix-clash / element-ns-prefix-clash / attr-in-default-ns (dyn)
             namespace fix-up errors that change EXPANDED names:
             <p:o><xsl:attribute name="p:k" namespace="urn:z"/> moves the
             element into urn:z;  <xsl:element name="p:e" namespace="urn:z">
             with p:q attributes drops/moves a namespace;  an attribute whose
             namespace is only bound as the element's default namespace loses
             its namespace.  Rec 7.1.2/7.1.3: the expanded names are as
             requested, prefixes are the processor's business.
 attrset-multidef-uses (dyn)  several definitions of one attribute set where
             one has use-attribute-sets are expanded in another order (used
             sets of all definitions first).  Rec 7.1.4, see ref_xslt B6.
 number-from (gen, --deviant only)  xsl:number level="any" counts the node
             matching `from` itself; other readings of `from` differ too.
 number-empty (dyn)  empty number list (level any: prints 0).
 xmlspace-strip (gen, --deviant only)  xml:space in the SOURCE is ignored
             when xsl:strip-space applies.  Rec 3.4.
 docorder (dyn, libxml2)  node-set sort misplaces a text/comment/PI node with
             a preceding element sibling S relative to nodes inside S.
 libxml2-empty-pi (dyn)  comparisons involving a processing instruction
             without data (its string-value is a NULL pointer in libxml2, not
             equal to the empty string-value of another node).
 libxml2-strnum (dyn)  number('-') = -0, number('1e3') = 1000 (Rec: NaN).
 recovery:3.4-strip-preserve-conflict  libxslt lets strip win; Rec: the last.
 recovery:*  other recoverable errors: libxslt signals or recovers otherwise;
             the generator tries not to produce them.
 Namespace nodes (status ns-differ: the trees agree, but some namespace URI
 that libxslt's output has in scope on an element is not among the namespace
 nodes / used names the Recommendation gives that element or its ancestors):
 exclude-include (gen)  exclude-result-prefixes of an xsl:stylesheet also acts
             on modules it INCLUDES and vice versa.  Rec 7.1.1: "a subtree
             rooted at an xsl:stylesheet element does not include any
             stylesheets imported or included by children of that element".
 lre-exclude-self (gen)  xsl:exclude-result-prefixes on a literal result
             element does not act on that element itself.  Rec 7.1.1: effective
             "within the subtree of the stylesheet rooted at the element bearing
             the ... attribute".
 Only that one direction is compared because libxslt copies the inherited
 namespace nodes only to literal result elements that are direct children of
 xsl:template (an LRE inside xsl:if / xsl:for-each / a variable gets none),
 drops the EXSLT namespace as if it were an extension-element namespace, and
 does not create the namespace node for a namespace-alias result URI; cases
 with xsl:namespace-alias are compared by expanded names only.
 Not a deviation but implementation-dependent, hence excluded the same way:
 multidoc-order (dyn)  relative order of nodes of different documents.
 Comparison artifacts removed by normalization: top-level whitespace,
 leading whitespace of PI data, empty comments (not serialized by libxml2).
 Known from xpath_vs_libxml2 and avoided by the generator: 15-digit /
 exponent number formatting, following:: from attributes, namespace axis
 with xmlns="", id() token order.

Results with the final reference (disjoint seed ranges):
default mode, 100 000 cases: 95 882 agree exactly (trees and namespace scope),
780 differ with a trigger of a class above (421 differ + 32 libxslt errors +
327 namespace-scope only; builtin-params verified by emulation), 3 338
XSLTUnsupported (xsl:number corner cases of ref_xslt B5 mostly), 0 unexplained,
0 reference errors.  --deviant: see the component report.
"""
import argparse
import os
import random
import shutil
import subprocess
import sys
import tempfile
import time
import traceback
from multiprocessing import Pool

if __name__ == '__main__' and __package__ is None:
    sys.path.insert(0, os.path.dirname(os.path.dirname(os.path.dirname(os.path.abspath(__file__)))))

from vf import model, ref_xpath as rx, ref_xslt as X

XSL = 'http://www.w3.org/1999/XSL/Transform'
SHEET_NS = ('xmlns:xsl="%s" xmlns:p="urn:p" xmlns:d="urn:d" xmlns:e="http://exslt.org/common"' % XSL)


def esc_attr(s):
    return (s.replace('&', '&amp;').replace('<', '&lt;').replace('"', '&quot;')
            .replace('\n', '&#10;').replace('\t', '&#9;').replace('\r', '&#13;'))


def esc_text(s):
    return s.replace('&', '&amp;').replace('<', '&lt;').replace('>', '&gt;').replace('\r', '&#13;')


# ---------------------------------------------------------------------------
# document generator
# ---------------------------------------------------------------------------
TEXTS = ['t', 'u', 'x y', '12', '7', '  ', '\n ', 'ab', 'zz top', '1', '0', 'a&b', '3', ' lead', 'x<y']
KVALS = ['x', 'y', 'z', '', 'a1', 'x']
NVALS = ['1', '2', '3', '10', '5', 'x', '', '2', '07']


class DocGen(object):
    def __init__(self, rnd, flags, deviant):
        self.r = rnd
        self.flags = flags
        self.deviant = deviant
        self.budget = rnd.randint(3, 38)
        self.nsmode = rnd.choice(['none', 'none', 'none', 'prefix', 'prefix', 'default'])
        self.idn = 0
        self.ids = []
        self.dtd = rnd.random() < 0.25

    def element(self, depth, top=False, dflt=False):
        r = self.r
        self.budget -= 1
        name = r.choice(['a', 'b', 'c', 'd', 'a', 'b'])
        attrs = []
        if top and self.nsmode == 'prefix':
            attrs.append(('xmlns:p', 'urn:p'))
        if self.nsmode == 'prefix' and r.random() < 0.3:
            name = 'p:' + name
        if self.nsmode == 'default' and not dflt and (top and r.random() < 0.5 or r.random() < 0.2):
            attrs.append(('xmlns', 'urn:d'))
            dflt = True
        if r.random() < 0.5:
            attrs.append(('k', r.choice(KVALS)))
        if r.random() < 0.45:
            attrs.append(('n', r.choice(NVALS)))
        if r.random() < 0.15:
            attrs.append(('x', r.choice(['p', 'q'])))
        if self.nsmode == 'prefix' and r.random() < 0.15:
            attrs.append(('p:k', r.choice(KVALS)))
        if r.random() < 0.2:
            self.idn += 1
            v = 'i%d' % self.idn
            attrs.append(('id', v))
            self.ids.append(v)
        if self.ids and r.random() < 0.1:
            attrs.append(('ref', r.choice(self.ids)))
        if r.random() < 0.05:
            attrs.append(('xml:lang', r.choice(['en', 'de', 'en-US'])))
        if self.deviant and r.random() < 0.04:
            attrs.append(('xml:space', r.choice(['preserve', 'default'])))
            self.flags.add('doc-xmlspace')
        r.shuffle(attrs)
        kids = []
        if depth < 5:
            n = r.choice([0, 0, 1, 2, 3, 4, 5]) if depth else r.randint(1, 5)
            for _ in range(n):
                if self.budget <= 0:
                    break
                x = r.random()
                if x < 0.55:
                    kids.append(self.element(depth + 1, dflt=dflt))
                elif x < 0.85:
                    self.budget -= 1
                    kids.append(esc_text(r.choice(TEXTS)))
                elif x < 0.93:
                    self.budget -= 1
                    kids.append('<!--%s-->' % r.choice(['c1', 'c2', ' ']))
                else:
                    self.budget -= 1
                    kids.append(r.choice(['<?t data?>', '<?u?>', '<?t x y?>']))
        a = ''.join(' %s="%s"' % (k, esc_attr(v)) for k, v in attrs)
        if not kids:
            return '<%s%s/>' % (name, a)
        return '<%s%s>%s</%s>' % (name, a, ''.join(kids), name)

    def document(self):
        r = self.r
        body = self.element(0, top=True)
        pre = post = ''
        if r.random() < 0.1:
            pre = r.choice(['<!--c0-->', '<?t pre?>'])
        if r.random() < 0.1:
            post = r.choice(['<!--c9-->', '<?u post?>'])
        dtd = ''
        if self.dtd:
            decl = ''.join('<!ATTLIST %s id ID #IMPLIED>' % n for n in ('a', 'b', 'c', 'd', 'p:a', 'p:b', 'p:c', 'p:d'))
            dtd = '<!DOCTYPE doc [%s]>' % decl
            self.flags.add('doc-ids')
        return dtd + pre + body + post


# ---------------------------------------------------------------------------
# expression generator
# ---------------------------------------------------------------------------
SAME_PRIORITY_UNIONS = [False, 0]   # [enabled, times applied]
ELEM_TESTS = ['a', 'b', 'c', 'd', '*', '*', 'a', 'b', 'p:a', 'p:*', 'd:b', 'd:*']
OTHER_TESTS = ['node()', 'text()', 'comment()', 'processing-instruction()', "processing-instruction('t')"]
ATTR_TESTS = ['@k', '@n', '@*', '@k', '@p:k', '@id', '@x']


class XG(object):
    def __init__(self, rnd, env):
        self.r = rnd
        self.env = env          # StyleGen (keys, docs, flags)

    def vars_of(self, sc, typ):
        return [n for n, t in sc if t == typ]

    def pred(self, sc, depth, attr_step=False):
        r = self.r
        opts = ['@k', "@k='x'", '@n > 2', 'not(@k)', "b", ". = 't'", 'count(*) > 1', 'text()',
                '@k = current()/@k', 'not(*)', '@n', "starts-with(@k, 'a')", 'string-length(.) > 2']
        if not attr_step:
            opts += ['1', '2', 'last()', 'position() > 1', 'position() &lt; 3', 'position() mod 2 = 1', '1', 'last()']
        else:
            opts = [". = 'x'", 'string-length(.) > 0', ". = ../@n", 'not(. = 1)']
        sv = self.vars_of(sc, 'string')
        if sv and r.random() < 0.2:
            return '. = $%s' % r.choice(sv)
        nv = self.vars_of(sc, 'number')
        if nv and not attr_step and r.random() < 0.15:
            return 'position() = $%s' % r.choice(nv)
        if depth > 0 and r.random() < 0.15:
            return self.boolean(sc, depth - 1)
        return r.choice(opts)

    def step(self, sc, depth, down, elems):
        r = self.r
        x = r.random()
        if x < 0.12 and not elems:
            t = r.choice(ATTR_TESTS)
            if r.random() < 0.15:
                t += '[%s]' % self.pred(sc, depth, True)
            return t, True
        axis = ''
        if x < 0.3:
            axis = 'descendant::'
        elif not down and x < 0.55:
            axis = r.choice(['parent::', 'ancestor::', 'ancestor-or-self::', 'following-sibling::',
                             'preceding-sibling::', 'self::', 'descendant-or-self::',
                             'self::*/following::', 'self::*/preceding::'])
        if elems or r.random() < 0.75 or axis.endswith(('following::', 'preceding::')):
            t = r.choice(ELEM_TESTS)
        else:
            t = r.choice(OTHER_TESTS)
        s = axis + t
        if not down and not axis and r.random() < 0.08:
            s = '..'
            return s, False
        n = r.choice([0, 0, 0, 1, 1, 2])
        for _ in range(n):
            s += '[%s]' % self.pred(sc, depth)
        return s, False

    def relpath(self, sc, depth, down=False, elems=False):
        r = self.r
        n = r.choice([1, 1, 1, 2, 2, 3])
        steps = []
        for i in range(n):
            s, is_attr = self.step(sc, depth, down, elems)
            steps.append(s)
            if is_attr:
                break
        out = steps[0]
        for s in steps[1:]:
            out += (r.choice(['/', '/', '/', '//']) if not s.startswith('@') or True else '/') + s
        return out

    def nodeset(self, sc, depth=2, down=False, elems=False):
        r = self.r
        if down:
            p = self.relpath(sc, depth, True, elems)
            if r.random() < 0.15:
                p += ' | ' + self.relpath(sc, depth, True, elems)
            return p
        x = r.random()
        env = self.env
        if x < 0.5:
            return self.relpath(sc, depth, False, elems)
        if x < 0.6:
            if r.random() < 0.1:
                return '/'
            return r.choice(['/', '//', '/*/', '//']) + self.relpath(sc, depth, True, elems)
        if x < 0.68:
            return self.relpath(sc, depth, False, elems) + ' | ' + self.relpath(sc, depth, False, elems)
        if x < 0.74:
            return '(%s)[%s]' % (self.relpath(sc, depth, False, elems), r.choice(['1', 'last()', '2', 'position() > 1', '@k']))
        nsv = self.vars_of(sc, 'elemset') + ([] if elems else self.vars_of(sc, 'nodeset'))
        if x < 0.82 and nsv:
            v = '$' + r.choice(nsv)
            y = r.random()
            if y < 0.4:
                return v
            if y < 0.7:
                return v + '/' + self.relpath(sc, depth, True, elems)
            if y < 0.85:
                return v + '[%s]' % self.pred(sc, depth)
            return v + ' | ' + self.relpath(sc, depth, False, elems)
        if x < 0.88 and env.keys:
            kn, kind = r.choice(env.keys)
            if kind == 'attr' and elems:
                return self.relpath(sc, depth, False, elems)
            val = self.keyval(sc, kind)
            s = "key('%s', %s)" % (kn, val)
            if r.random() < 0.3:
                s += '/' + self.relpath(sc, depth, True, elems)
            return s
        if x < 0.92 and env.docs:
            dn = r.choice(env.docs)
            form = r.choice(["document('%s')" % dn, "document('%s')" % dn, "document('%s', /)" % dn,
                             "document('')" if env.allow_self_doc else "document('%s')" % dn])
            return form + '/' + r.choice(['*', '*/*', '*//a', 'descendant::*[@k]', '*/b', 'descendant::*[1]'])
        rtf = self.vars_of(sc, 'rtf')
        if x < 0.96 and rtf:
            return 'e:node-set($%s)/%s' % (r.choice(rtf), r.choice(['*', '*/*', 'node()', '*[1]', 'descendant::*', 'text()']))
        if 'doc-ids' in env.flags and env.ids:
            return "id('%s')" % r.choice(env.ids)
        return 'current()/' + self.relpath(sc, depth, False, elems)

    def keyval(self, sc, kind):
        r = self.r
        if kind == 'k':
            return r.choice(["'x'", "'y'", '@k', "'a1'", "''", '*/@k', '../@k'])
        if kind == 'n':
            return r.choice(['2', "'2'", '@n', '1 + 1', '*/@n', "'10'"])
        if kind == 'name':
            return r.choice(["'a'", "'b'", 'name()', "'c'", 'name(..)'])
        if kind == 'count':
            return r.choice(['0', '1', '2', 'count(*)', "'0'"])
        return r.choice(["'t'", 'string(.)', "'12'", '@k', "''"])

    def string(self, sc, depth=2):
        r = self.r
        x = r.random()
        if depth <= 0 or x < 0.35:
            opts = ['name()', 'local-name()', 'string(.)', "'lit'", "'x'", 'namespace-uri()', 'string(@k)',
                    'name(..)', 'normalize-space()', "'a1'", 'string(@n)', 'name(*[1])', "''"]
            sv = self.vars_of(sc, 'string') + self.vars_of(sc, 'rtf') + self.vars_of(sc, 'param')
            if sv and r.random() < 0.4:
                return '$' + r.choice(sv)
            return r.choice(opts)
        if x < 0.5:
            return 'string(%s)' % self.nodeset(sc, depth - 1)
        if x < 0.62:
            return 'concat(%s, %s)' % (self.string(sc, depth - 1), self.any(sc, depth - 1))
        if x < 0.7:
            return 'substring(%s, %s, %s)' % (self.string(sc, depth - 1), r.choice(['1', '2', '0', '1.5', 'position()']), r.choice(['1', '2', '3']))
        if x < 0.75:
            return 'substring(%s, %s)' % (self.string(sc, depth - 1), r.choice(['1', '2', '3']))
        if x < 0.8:
            return "substring-%s(%s, %s)" % (r.choice(['before', 'after']), self.string(sc, depth - 1), r.choice(["'x'", "' '", "'a'", "''"]))
        if x < 0.86:
            return "translate(%s, %s, %s)" % (self.string(sc, depth - 1), r.choice(["'abx'", "'xyz'", "' '", "'12'"]), r.choice(["'ABX'", "''", "'_'", "'zz'"]))
        if x < 0.91:
            return 'normalize-space(%s)' % self.string(sc, depth - 1)
        if x < 0.96:
            return 'string(%s)' % self.number(sc, depth - 1)
        return 'string(%s)' % self.boolean(sc, depth - 1)

    def number(self, sc, depth=2):
        r = self.r
        x = r.random()
        if depth <= 0 or x < 0.35:
            nsn = self.vars_of(sc, 'numset')
            if nsn and r.random() < 0.6:
                return r.choice(['%s * 2', 'number(%s)', '%s + 1', 'round(%s)', 'sum(%s)']) % ('$' + r.choice(nsn))
            nv = self.vars_of(sc, 'number')
            if nv and r.random() < 0.4:
                return '$' + r.choice(nv)
            return r.choice(['position()', 'last()', 'count(*)', '1', '2', '3', '0', '10', 'count(@*)', 'number(@n)',
                             'string-length()', 'count(ancestor::*)', 'count(preceding-sibling::*)', '7', '12'])
        if x < 0.5:
            return 'count(%s)' % self.nodeset(sc, depth - 1)
        if x < 0.58:
            return 'sum(%s)' % r.choice(['@n', '*/@n', '//@n', 'descendant::*/@n', '*[@n != \'x\']/@n', '(//a | //b)/@n'])
        if x < 0.64:
            return 'string-length(%s)' % self.string(sc, depth - 1)
        if x < 0.7:
            nsv = self.vars_of(sc, 'elemset') + self.vars_of(sc, 'nodeset')
            if nsv and r.random() < 0.5:
                # a variable holding a node-set used as a number (converted through its first node), more than once
                v = '$' + r.choice(nsv)
                return r.choice(['number(%s)', '%s * 2', '(%s/@n) + 0', 'round(%s/@n)', 'number(%s) + number(%s/@n)']).replace('%s', v)
            return 'number(%s)' % r.choice(['@n', '.', '*[1]', "'12'", "' 7 '", "'x'", "''", 'true()', '@k'])
        if x < 0.9:
            op = r.choice(['+', '-', '*', 'mod', 'div', '+', '-'])
            a = self.number(sc, depth - 1)
            if op == '*':
                b = r.choice(['2', '3', '0', '-1'])
            elif op == 'div':
                b = r.choice(['2', '4', '0', '1'])
            elif op == 'mod':
                b = r.choice(['2', '3', '5', '0', '-2'])
            else:
                b = self.number(sc, depth - 1)
            return '(%s) %s (%s)' % (a, op, b)
        if x < 0.96:
            return '%s((%s) div %s)' % (r.choice(['floor', 'ceiling', 'round']), self.number(sc, depth - 1), r.choice(['2', '4', '-2']))
        return '-(%s)' % self.number(sc, depth - 1)

    def boolean(self, sc, depth=2):
        r = self.r
        x = r.random()
        if depth <= 0 or x < 0.3:
            bv = self.vars_of(sc, 'boolean')
            if bv and r.random() < 0.3:
                return '$' + r.choice(bv)
            return r.choice(['@k', 'not(@k)', '*', 'not(*)', "@k = 'x'", '@n > 2', 'position() = last()', 'position() mod 2 = 0',
                             'true()', 'false()', 'text()', "lang('en')", '@n = 2', "name() = 'a'", 'position() > 1',
                             '. = 12', '@n &lt;= 3', '@n != @k', 'parent::*', 'self::a', "contains(., 't')"])
        if x < 0.42:
            return self.nodeset(sc, depth - 1)
        if x < 0.5:
            return 'not(%s)' % self.boolean(sc, depth - 1)
        if x < 0.62:
            return '(%s) %s (%s)' % (self.boolean(sc, depth - 1), r.choice(['and', 'or']), self.boolean(sc, depth - 1))
        if x < 0.72:
            return '%s %s %s' % (self.any(sc, depth - 1), r.choice(['=', '!=']), self.any(sc, depth - 1))
        if x < 0.82:
            return '%s %s %s' % (self.number(sc, depth - 1), r.choice(['&lt;', '&gt;', '&lt;=', '&gt;=', '=']), self.number(sc, depth - 1))
        if x < 0.88:
            return '%s(%s, %s)' % (r.choice(['contains', 'starts-with']), self.string(sc, depth - 1), self.string(sc, 0))
        if x < 0.94:
            a = self.nodeset(sc, depth - 1, elems=True)
            b = self.nodeset(sc, depth - 1, elems=True)
            return r.choice(['generate-id(%s) = generate-id(%s)', 'count(%s | %s) = 1', '%s = %s']) % (a, b)
        rtf = self.vars_of(sc, 'rtf')
        if rtf:
            return r.choice(['boolean($%s)', "$%s = 't'", "string-length($%s) > 1"]) % r.choice(rtf)
        return 'boolean(%s)' % self.string(sc, depth - 1)

    def any(self, sc, depth=2):
        x = self.r.random()
        if x < 0.35:
            return self.nodeset(sc, depth)
        if x < 0.6:
            return self.string(sc, depth)
        if x < 0.85:
            return self.number(sc, depth)
        return self.boolean(sc, depth)

    def typed(self, sc, depth=2):
        """-> (expr, type)"""
        x = self.r.random()
        if x < 0.25:
            return self.nodeset(sc, depth, elems=True), 'elemset'
        if x < 0.4:
            return self.nodeset(sc, depth), 'nodeset'
        if x < 0.6:
            return self.string(sc, depth), 'string'
        if x < 0.85:
            return self.number(sc, depth), 'number'
        return self.boolean(sc, depth), 'boolean'

    # -- patterns
    def pattern(self, sc_unused=None, allow_attr=True):
        r = self.r
        env = self.env
        x = r.random()
        if x < 0.35:
            p = r.choice(ELEM_TESTS)
        elif x < 0.43:
            p = r.choice(OTHER_TESTS)
        elif x < 0.5 and allow_attr:
            p = r.choice(['@k', '@n', '@*', 'a/@k', '@p:k', '*/@n'])
        elif x < 0.64:
            p = r.choice(ELEM_TESTS) + '/' + r.choice(ELEM_TESTS + ['text()', 'text()'])
        elif x < 0.82:
            p = r.choice(ELEM_TESTS) + '[%s]' % r.choice(['@k', "@k='x'", '1', 'last()', 'position() > 1', 'b', 'not(@k)', '@n > 2',
                                                          'not(*)', '2', 'text()', '@k = ../@k', 'position() = 2', 'count(*) > 1'])
        elif x < 0.87:
            p = r.choice(['/', '/*', '/a', '//a', '//b/c', '/*/b', '//*[@k]', '//text()'])
        elif x < 0.9 and env.keys:
            kn, kind = r.choice(env.keys)
            lit = {'k': ["'x'", "'y'"], 'n': ["'2'", "'10'"], 'name': ["'a'", "'b'"], 'count': ["'0'", "'1'"]}.get(kind, ["'t'", "'12'"])
            p = "key('%s', %s)" % (kn, r.choice(lit))
            if r.random() < 0.3:
                p += '/' + r.choice(['*', 'b', 'text()'])
        elif x < 0.92 and 'doc-ids' in env.flags and env.ids:
            p = "id('%s')" % r.choice(env.ids)
        elif x < 0.96 and env.deviant:
            p = r.choice(['a//b', '*//*', '*//text()', '@k[1]', '@*[. = \'x\']', '/a[@k][b]', '/*[1][@n]', 'a//c[1]'])
            env.flags.add('pattern-deviant')
        else:
            p = r.choice(ELEM_TESTS) + '/' + r.choice(ELEM_TESTS) + '/' + r.choice(ELEM_TESTS)
        if r.random() < 0.12:
            alt = r.choice(ELEM_TESTS + ['text()', '@k'] if allow_attr else ELEM_TESTS)
            if SAME_PRIORITY_UNIONS[0]:
                # by-construction exclusion of a known finding about unions whose alternatives have different default priorities
                # (set by the caller): keep the alternative only if its default priority equals that of the first alternative
                try:
                    pa = rx.pattern_alternatives(rx.parse_pattern(p))
                    pb = rx.pattern_alternatives(rx.parse_pattern(alt))
                    if len({q for _, q in pa + pb}) > 1:
                        same = [t for t in (ELEM_TESTS + ['text()', '@k'] if allow_attr else ELEM_TESTS)
                                if rx.pattern_alternatives(rx.parse_pattern(t))[0][1] == pa[0][1]]
                        SAME_PRIORITY_UNIONS[1] += 1
                        alt = r.choice(same) if same else None
                except Exception:
                    alt = None
            if alt is not None:
                p += ' | ' + alt
        return p


def pattern_kind(p):
    """'elem' | 'nonattr' | 'any' : what the context node of a template with
    this match pattern can be."""
    kind = 'elem'
    for alt in p.split(' | '):
        alt = alt.strip()
        last = alt.split('/')[-1] if alt != '/' else '/'
        if alt == '/' or '@' in last or alt.startswith('key(') and False:
            return 'any'
        if last.startswith(('node()', 'text()', 'comment()', 'processing-instruction')):
            kind = 'nonattr'
        if alt.startswith(('key(', 'id(')) and '/' not in alt:
            pass
    return kind


# ---------------------------------------------------------------------------
# stylesheet generator
# ---------------------------------------------------------------------------
class StyleGen(object):
    def __init__(self, rnd, flags, deviant, ids):
        self.r = rnd
        self.flags = flags
        self.deviant = deviant
        self.ids = ids
        self.keys = []
        self.docs = []
        self.allow_self_doc = False
        self.x = XG(rnd, self)
        self.varn = 0
        self.named = []            # names of named templates (index order = call order)
        self.named_params = {}
        self.attrsets = []
        self.globals = []          # (name, type)
        self.modes = [None, None, None, 'm1', 'm2']
        self.local_used = set()

    # -- helpers
    def fresh(self):
        self.varn += 1
        return 'v%d' % self.varn

    def text_piece(self):
        return esc_text(self.r.choice(['t', '=', ' ', 'x', '[', ']', ';', 'A b', '0', '\n', '&']))

    def avt(self, sc):
        r = self.r
        x = r.random()
        if x < 0.3:
            return r.choice(['v', 'x y', '', '1'])
        if x < 0.8:
            return r.choice(['', 'p-', '{{']) + '{%s}' % self.attr_escape(self.x.any(sc, 1)) + r.choice(['', '', '}}', '-s'])
        return '{%s}{%s}' % (self.attr_escape(self.x.string(sc, 1)), self.attr_escape(self.x.number(sc, 1)))

    def attr_escape(self, e):
        # expressions are generated with &lt; already escaped; quotes: expressions use ' only
        return e.replace('{', '').replace('}', '')

    def sorts(self, sc):
        r = self.r
        out = []
        for _ in range(r.choice([1, 1, 1, 2])):
            a = ''
            x = r.random()
            if x < 0.45:
                a += ' select="%s"' % r.choice(['@k', '@n', '.', 'name()', '@x', 'string-length(.)', 'count(*)', 'position()',
                                                 'last() - position()', '@id', 'local-name()'])
                numeric = None
            elif x < 0.8:
                a += ' select="%s"' % r.choice(['@n', 'count(*)', 'position()', 'number(@n) mod 3', 'string-length(@k)', '-position()', 'count(@*)'])
                a += ' data-type="number"'
            if r.random() < 0.35:
                a += ' order="%s"' % r.choice(['descending', 'ascending', "{substring('descending', 1, 10)}"])
            if r.random() < 0.1 and 'data-type' not in a:
                a += ' data-type="text"'
            out.append('<xsl:sort%s/>' % a)
        return ''.join(out)

    def with_params(self, sc, names, **kw):
        r = self.r
        out = []
        for n in names:
            if r.random() < 0.6:
                if r.random() < 0.7:
                    out.append('<xsl:with-param name="%s" select="%s"/>' % (n, self.x.any(sc, 1)))
                else:
                    out.append('<xsl:with-param name="%s">%s</xsl:with-param>' % (n, self.body(sc, 1, kw.pop('ctx', 'any'), novars=True, **kw)))
        if self.globals and r.random() < 0.15:
            # a parameter the callee does not declare is ignored (XSLT 11.6) - also when a global variable has that name
            out.append('<xsl:with-param name="%s" select="\'WP\'"/>' % r.choice(self.globals)[0])
        return ''.join(out)

    def variable(self, sc, depth, ctx, in_foreach=False, named=False, tag='variable', name=None, noapply=False):
        """-> (xml, (name, type))"""
        r = self.r
        if name is None:
            name = self.fresh()
            gl = [g for g, _ in self.globals if g not in self.local_used]
            if tag == 'variable' and gl and r.random() < 0.08:
                name = r.choice(gl)              # a local variable may shadow a global one
            self.local_used.add(name)
        x = r.random()
        if x < 0.08:
            # a node-set of attribute nodes with numeric values, to be used as a NUMBER (re-bound for every node of a for-each: the
            # object that holds the node-set is recycled, its cached conversions must not be)
            return '<xsl:%s name="%s" select="%s"/>' % (tag, name, r.choice(['@n', '*/@n', '../@n', 'descendant-or-self::*/@n'])), (name, 'numset')
        if x < 0.6:
            e, t = self.x.typed(sc, 2)
            return '<xsl:%s name="%s" select="%s"/>' % (tag, name, e), (name, t)
        if x < 0.92:
            b = self.body(sc, min(depth, 2), ctx, in_foreach=in_foreach, named=named, in_var=True, noapply=noapply)
            return '<xsl:%s name="%s">%s</xsl:%s>' % (tag, name, b, tag), (name, 'rtf')
        return '<xsl:%s name="%s"/>' % (tag, name), (name, 'string')

    def leading_attrs(self, sc, ctx):
        """attribute-creating constructs, legal only at the start of an element"""
        r = self.r
        out = []
        for _ in range(r.choice([0, 0, 1, 1, 2])):
            x = r.random()
            if x < 0.5:
                nm = r.choice(['k', 'z', 'n', 'p:q', '{name()}' if ctx == 'elem' else 'z', "{concat('a', position())}", 'k'])
                ns = ''
                if r.random() < 0.15:
                    ns = ' namespace="%s"' % r.choice(['urn:z', 'urn:p', '', '{namespace-uri()}'])
                    nm = r.choice(['k', 'q:k', 'p:k'])
                out.append('<xsl:attribute name="%s"%s>%s</xsl:attribute>' % (nm, ns, self.body(sc, 1, ctx, textonly=True)))
            elif x < 0.7:
                out.append('<xsl:copy-of select="%s"/>' % r.choice(['@*', '@k', '@n | @k', '*/@k', '../@*']))
            elif x < 0.85:
                out.append('<xsl:for-each select="@*">%s</xsl:for-each>' % r.choice([
                    '<xsl:copy/>', '<xsl:attribute name="{local-name()}-x"><xsl:value-of select="name()"/></xsl:attribute>',
                    '<xsl:attribute name="{local-name()}"><xsl:value-of select="position()"/></xsl:attribute>']))
            else:
                out.append('<xsl:if test="%s"><xsl:attribute name="c">%s</xsl:attribute></xsl:if>' % (self.x.boolean(sc, 1), self.text_piece()))
        return ''.join(out)

    def use_sets(self, prefix=''):
        r = self.r
        if self.attrsets and r.random() < 0.25:
            k = r.choice([1, 1, 2])
            return ' %suse-attribute-sets="%s"' % (prefix, ' '.join(r.choice(self.attrsets) for _ in range(k)))
        return ''

    def number_instr(self, sc, ctx='any'):
        r = self.r
        x = r.random()
        a = ''
        if x < 0.3 or ctx == 'root':
            a += ' value="%s"' % r.choice(['position()', 'count(*) + 1', '3', 'last()', '27', 'position() * 7', '1234', 'count(ancestor::*) + 1', '2.5'])
        else:
            lv = r.choice(['single', 'multiple', 'any', None, None])
            if lv:
                a += ' level="%s"' % lv
            if r.random() < 0.55:
                a += ' count="%s"' % r.choice(['*', 'a', 'a|b', 'b', '*[@k]', 'node()', 'a|b|c|d', 'text()', 'c|d', '*[not(@k)]', 'p:*|a'])
            if self.deviant and r.random() < 0.25:
                a += ' from="%s"' % r.choice(['a', 'b', '*[@k]', 'c', '/*'])
                self.flags.add('number-from')
        if r.random() < 0.5:
            a += ' format="%s"' % r.choice(['1', 'a', 'A', 'i', 'I', '01', '1.1', '1-a', '(1)', 'A.1 ', '001', '1.', '[a]', 'I.i.1', '{substring(\'aA1\', position() mod 3 + 1, 1)}'])
        if r.random() < 0.1:
            a += ' grouping-separator="," grouping-size="%s"' % r.choice(['3', '2', '1'])
        return '<xsl:number%s/>' % a

    # -- sequence constructor
    def body(self, sc, depth, ctx, in_foreach=False, textonly=False, named=False, in_var=False, novars=False, nitems=None, noapply=False):
        r = self.r
        sc = list(sc)
        out = []
        n = nitems if nitems is not None else r.choice([1, 1, 2, 2, 3, 4])
        for _ in range(n):
            out.append(self.instr(sc, depth, ctx, in_foreach, textonly, named, in_var, novars, noapply))
        return ''.join(out)

    def instr(self, sc, depth, ctx, in_foreach, textonly, named, in_var, novars, noapply=False):
        r = self.r
        x = r.random()
        kw = dict(in_foreach=in_foreach, textonly=textonly, named=named, in_var=in_var, noapply=noapply)
        if depth <= 0:
            x = x * 0.3
        if x < 0.1:
            return self.text_piece()
        if x < 0.14:
            return '<xsl:text>%s</xsl:text>' % r.choice([' ', '', 'x', '\n', '  y'])
        if x < 0.3:
            return '<xsl:value-of select="%s"/>' % self.x.any(sc, 2)
        if x < 0.36:
            return '<xsl:if test="%s">%s</xsl:if>' % (self.x.boolean(sc, 2), self.body(sc, depth - 1, ctx, **kw))
        if x < 0.42:
            whens = ''.join('<xsl:when test="%s">%s</xsl:when>' % (self.x.boolean(sc, 2), self.body(sc, depth - 1, ctx, **kw))
                            for _ in range(r.choice([1, 1, 2, 3])))
            oth = '<xsl:otherwise>%s</xsl:otherwise>' % self.body(sc, depth - 1, ctx, **kw) if r.random() < 0.6 else ''
            return '<xsl:choose>%s%s</xsl:choose>' % (whens, oth)
        if x < 0.52:
            elems = r.random() < 0.6
            if elems:
                sel = self.x.nodeset(sc, 2, elems=True)
                c2 = 'elem' if self._elems_only(sel) else 'any'
            else:
                sel = self.x.nodeset(sc, 2)
                c2 = 'any'
            srt = self.sorts(sc) if r.random() < 0.35 else ''
            kw2 = dict(kw)
            kw2['in_foreach'] = True
            if not self._downward(sel):
                kw2['noapply'] = True
            return '<xsl:for-each select="%s">%s%s</xsl:for-each>' % (sel, srt, self.body(sc, depth - 1, c2, **kw2))
        if x < 0.58 and not novars:
            xml, v = self.variable(sc, depth - 1, ctx, in_foreach, named, noapply=noapply)
            if v[0] in [n for n, _ in sc if (n, _) not in self.globals] :
                return ''
            sc[:] = [e for e in sc if e[0] != v[0]]
            sc.append(v)
            return xml
        if x < 0.62:
            return self.number_instr(sc, ctx)
        if x < 0.66:
            e = r.choice(['string(%s)' % self.x.string(sc, 1), self.x.number(sc, 1), 'boolean(%s)' % self.x.boolean(sc, 1)])
            return '<xsl:copy-of select="%s"/>' % e
        if x < 0.69 and self.named and not textonly and not noapply:
            # call-template: a named template may only call later ones
            lo = 0
            if named is not False and named is not None and named is not True:
                lo = named + 1
            cands = self.named[lo:] if named is not True else []
            if cands:
                nm = r.choice(cands)
                return '<xsl:call-template name="%s">%s</xsl:call-template>' % (nm, self.with_params(sc, self.named_params.get(nm, []), **kw))
            return self.text_piece()
        if x < 0.71:
            return '<xsl:message>%s</xsl:message>' % self.text_piece()
        if textonly:
            return '<xsl:value-of select="%s"/>' % self.x.string(sc, 1)
        # ---- node-creating instructions -------------------------------
        if x < 0.8:
            name = r.choice(['o', 'i', 'j', 'p:o', 'd:i', 'o', 'i'])
            a = ''
            for an in r.sample(['k', 'm', 'p:k', 'w'], r.choice([0, 0, 1, 2])):
                a += ' %s="%s"' % (an, self.avt(sc))
            if r.random() < 0.1:
                a += ' xmlns:q="urn:q"'
            if r.random() < 0.08:
                a += ' xsl:exclude-result-prefixes="%s"' % r.choice(['p', 'd', 'p d', 'e'])
            a += self.use_sets('xsl:')
            return '<%s%s>%s%s</%s>' % (name, a, self.leading_attrs(sc, ctx), self.body(sc, depth - 1, ctx, **kw), name)
        if x < 0.84:
            nm = r.choice(['e', '{name()}', 'p:e', "{concat('n', count(*))}", '{local-name()}x', 'e'])
            ns = ''
            if r.random() < 0.2:
                ns = ' namespace="%s"' % r.choice(['urn:z', '', 'urn:p', '{namespace-uri()}'])
                nm = r.choice(['e', 'q:e', 'p:e'])
            if nm.startswith('{name()}') or nm.startswith('{local-name()}'):
                if ctx != 'elem':
                    nm = 'e'
            return '<xsl:element name="%s"%s%s>%s%s</xsl:element>' % (nm, ns, self.use_sets(), self.leading_attrs(sc, ctx), self.body(sc, depth - 1, ctx, **kw))
        if x < 0.87:
            if ctx == 'elem':
                return '<xsl:copy%s>%s%s</xsl:copy>' % (self.use_sets(), self.leading_attrs(sc, ctx), self.body(sc, depth - 1, ctx, **kw))
            if ctx == 'nonattr':
                return '<xsl:copy>%s</xsl:copy>' % self.body(sc, depth - 1, ctx, **kw)
            return self.text_piece()
        if x < 0.9:
            sel = self.x.nodeset(sc, 2, elems=True)
            if not self._no_attrs(sel):
                sel = '*'
            return '<xsl:copy-of select="%s"/>' % sel
        if x < 0.92:
            rtf = self.x.vars_of(sc, 'rtf')
            if rtf:
                return '<xsl:copy-of select="$%s"/>' % r.choice(rtf)
            return '<xsl:comment>c%s</xsl:comment>' % self.body(sc, 1, ctx, textonly=True, in_foreach=in_foreach, named=named)
        if x < 0.94:
            return r.choice(['<xsl:comment>c%s</xsl:comment>', '<xsl:processing-instruction name="t">%s</xsl:processing-instruction>',
                             '<xsl:processing-instruction name="{local-name(.)}x">%s</xsl:processing-instruction>']) \
                % self.body(sc, 1, ctx, textonly=True, in_foreach=in_foreach, named=named, nitems=r.choice([1, 2]))
        if x < 0.945 and not in_foreach and named is False and not in_var:
            return '<xsl:apply-imports/>'
        if named is True or noapply:
            return self.text_piece()
        # apply-templates: strictly downward select -> termination
        a = ''
        if r.random() < 0.6:
            a += ' select="%s"' % self.x.nodeset(sc, 2, down=True)
        m = r.choice(self.modes)
        if m:
            a += ' mode="%s"' % m
        inner = ''
        if r.random() < 0.25:
            inner += self.sorts(sc)
        if r.random() < 0.4:
            inner += self.with_params(sc, ['p1', 'p2'], **kw)
        return '<xsl:apply-templates%s>%s</xsl:apply-templates>' % (a, inner)

    def _no_attrs(self, sel):
        return '@' not in ''.join(self._outside_preds(sel))

    def _outside_preds(self, sel):
        out = []
        d = 0
        for ch in sel:
            if ch == '[':
                d += 1
            elif ch == ']':
                d -= 1
            elif d == 0:
                out.append(ch)
        return out

    def _downward(self, sel):
        o = ''.join(self._outside_preds(sel))
        return not any(t in o for t in ('$', '..', 'ancestor', 'parent', 'key(', 'document(', 'current()', 'e:node-set',
                                        'following', 'preceding', 'self::', 'id(')) and not o.startswith('/') \
            and ' | /' not in o and '(/' not in o

    def _elems_only(self, sel):
        o = ''.join(self._outside_preds(sel))
        return not any(t in o for t in ('@', 'node()', 'text()', 'comment()', 'processing-instruction', '$', '..',
                                        'ancestor', 'parent', 'key(', 'document(', 'current()', 'e:node-set')) and o != '/'

    # -- top level
    def template(self, idx, modname, is_root=False):
        r = self.r
        self.local_used = set()
        sc = list(self.globals)
        if is_root:
            pat, kind = '/', 'root'
            attrs = ' match="/"'
            wrap = True
        else:
            pat = self.x.pattern()
            kind = pattern_kind(pat)
            attrs = ' match="%s"' % esc_attr(pat).replace('&amp;lt;', '&lt;')
            m = r.choice(self.modes)
            if m:
                attrs += ' mode="%s"' % m
            if r.random() < 0.25:
                attrs += ' priority="%s"' % r.choice(['1', '0.5', '-0.5', '2', '0', '-1', '0.25', '.75'])
            wrap = False
        params = ''
        for pn in ['p1', 'p2']:
            if r.random() < 0.35:
                xml, v = self.variable(sc, 1, kind, tag='param', name=pn)
                params += xml
                sc.append((pn, 'param'))
                self.local_used.add(pn)
        b = self.body(sc, 4, kind, nitems=r.choice([1, 2, 3, 4]))
        if wrap:
            b = '<out>%s<xsl:apply-templates/></out>' % b if r.random() < 0.85 else b + '<xsl:apply-templates/>'
        return '<xsl:template%s>%s%s</xsl:template>' % (attrs, params, b)

    def named_template(self, idx):
        r = self.r
        self.local_used = set()
        sc = list(self.globals)
        nm = self.named[idx]
        params = ''
        for pn in self.named_params[nm]:
            xml, v = self.variable(sc, 1, 'any', tag='param', name=pn, named=True)
            params += xml
            sc.append((pn, 'param'))
            self.local_used.add(pn)
        extra = ''
        if r.random() < 0.2:
            extra = ' match="%s"' % r.choice(['c', 'd', 'b[@k]'])
        return '<xsl:template name="%s"%s>%s%s</xsl:template>' % (nm, extra, params, self.body(sc, 3, 'root', named=idx, in_foreach=True))

    def generate(self, files):
        """fills files with main.xsl and imported/included modules; returns params"""
        r = self.r
        # module structure
        shape = r.choice(['single', 'single', 'import1', 'import1', 'import2', 'chain', 'include', 'inc+imp'])
        mods = {'main.xsl': {'imports': [], 'includes': []}}
        if shape == 'import1':
            mods['main.xsl']['imports'] = ['m1.xsl']
        elif shape == 'import2':
            mods['main.xsl']['imports'] = ['m1.xsl', 'm2.xsl']
        elif shape == 'chain':
            mods['main.xsl']['imports'] = ['m1.xsl']
            mods['m1.xsl'] = {'imports': ['m2.xsl'], 'includes': []}
        elif shape == 'include':
            mods['main.xsl']['includes'] = ['m1.xsl']
        elif shape == 'inc+imp':
            mods['main.xsl']['imports'] = ['m2.xsl']
            mods['main.xsl']['includes'] = ['m1.xsl']
            mods['m1.xsl'] = {'imports': ['m3.xsl'] if r.random() < 0.5 else [], 'includes': []}
        for m in list(mods.values()):
            for n in m['imports'] + m['includes']:
                mods.setdefault(n, {'imports': [], 'includes': []})
        names = sorted(mods)
        if r.random() < 0.5:
            self.docs.append('ext.xml')
        self.allow_self_doc = r.random() < 0.3
        # declarations that must be known before bodies
        for i in range(r.choice([0, 0, 1, 2])):
            self.keys.append(('k%d' % i, r.choice(['k', 'n', 'name', 'count', 'text', 'k'])))
        if r.random() < 0.08:
            self.keys.append(('ka', 'attr'))
        nnamed = r.choice([0, 0, 1, 2, 3])
        for i in range(nnamed):
            nm = 'n%d' % i
            self.named.append(nm)
            self.named_params[nm] = r.sample(['p1', 'p2', 'q'], r.choice([0, 1, 2]))
        nsets = r.choice([0, 0, 0, 1, 2, 3])
        setdefs = []
        for i in range(nsets):
            nm = 's%d' % i
            uses = ''
            if self.attrsets and r.random() < 0.4:
                uses = ' use-attribute-sets="%s"' % r.choice(self.attrsets)     # only earlier sets: acyclic
            body = ''
            for an in r.sample(['k', 'sa', 'sb', 'p:k'], r.choice([1, 1, 2])):
                body += '<xsl:attribute name="%s">%s</xsl:attribute>' % (an, self.body([], 1, 'any', textonly=True, in_foreach=True, named=True, nitems=1))
            setdefs.append((nm, '<xsl:attribute-set name="%s"%s>%s</xsl:attribute-set>' % (nm, uses, body)))
            self.attrsets.append(nm)
        # globals (defined in main, possibly overridden copies in imports)
        gdecl = []
        for i in range(r.choice([0, 0, 1, 2, 3])):
            nm = 'g%d' % i
            self.local_used = set()
            xml, v = self.variable(list(self.globals), 2, 'root', in_foreach=True, named=True,
                                   tag=r.choice(['variable', 'variable', 'param']), name=nm)
            gdecl.append(xml)
            self.globals.append(v)
        params = {}
        if r.random() < 0.3:
            gdecl.append('<xsl:param name="tp" select="\'dflt\'"/>')
            self.globals.append(('tp', 'string'))
            if r.random() < 0.6:
                params['tp'] = r.choice(['given', 'x', ''])
        if r.random() < 0.15:
            gdecl.append('<xsl:param name="np" select="1"/>')
            self.globals.append(('np', 'number'))
            if r.random() < 0.6:
                params['np'] = float(r.choice([2, 3, 0]))
        # distribute declarations
        per = dict((n, []) for n in names)
        per['main.xsl'].append('<xsl:output method="xml" omit-xml-declaration="yes" indent="no"/>')
        for kn, kind in self.keys:
            match = r.choice(['*', 'a', 'a|b', '*[@k]', 'b|c|d', 'p:*|a'])
            use = {'k': '@k', 'n': '@n', 'name': 'name()', 'count': 'count(*)', 'text': 'text()', 'attr': '.'}[kind]
            if kind == 'attr':
                match = '@k|@n'
            per[r.choice(names)].append('<xsl:key name="%s" match="%s" use="%s"/>' % (kn, match, use))
            if r.random() < 0.15 and kind != 'attr':
                per[r.choice(names)].append('<xsl:key name="%s" match="%s" use="%s"/>' % (kn, 'c|d', use))
        for nm, xml in setdefs:
            first_mod = r.choice(names)
            per[first_mod].append(xml)
            if r.random() < 0.2 and len(names) > 1:
                # same-named set in another module (merged by import precedence)
                other = r.choice(names)
                per[other].append('<xsl:attribute-set name="%s"><xsl:attribute name="%s">o</xsl:attribute></xsl:attribute-set>'
                                  % (nm, r.choice(['so', 'sa'])))
                level = {'main.xsl': 0, 'm1.xsl': 0 if shape in ('include', 'inc+imp') else 1, 'm2.xsl': 2, 'm3.xsl': 3}
                if level[other] == level[first_mod]:
                    self.flags.add('attrset-same-prec')
        for g in gdecl:
            per['main.xsl'].append(g)
        if self.globals and len(names) > 1 and r.random() < 0.3:
            gn = self.globals[0][0]
            lower = [n for n in names if n != 'main.xsl' and n not in mods['main.xsl']['includes']]
            if lower:
                per[r.choice(lower)].append('<xsl:variable name="%s" select="\'imported\'"/>' % gn)
        if r.random() < 0.3:
            per[r.choice(names)].append('<xsl:strip-space elements="%s"/>' % r.choice(['*', 'a', 'a b', 'p:*', '*', 'c d']))
            self.flags.add('strip')
            if r.random() < 0.5:
                per[r.choice(names)].append('<xsl:preserve-space elements="%s"/>' % r.choice(['b', 'a', 'p:a', 'd']))
        if r.random() < 0.08:
            per['main.xsl'].append('<xsl:namespace-alias stylesheet-prefix="d" result-prefix="%s"/>' % r.choice(['p', 'xsl', 'e']))
        # templates
        ntempl = r.randint(2, 9)
        per['main.xsl'].append(('T', self.template(0, 'main.xsl', is_root=r.random() < 0.85)))
        for i in range(ntempl):
            mn = r.choice(names)
            per[mn].append(('T', self.template(i + 1, mn)))
        for i in range(nnamed):
            mn = r.choice(names)
            per[mn].append(('T', self.named_template(i)))
            if r.random() < 0.1 and mn == 'main.xsl' and len(names) > 1:
                lower = [n for n in names if n != 'main.xsl' and n not in mods['main.xsl']['includes']]
                if lower:
                    per[r.choice(lower)].append(('T', '<xsl:template name="%s">overridden</xsl:template>' % self.named[i]))
        for n in names:
            decl = [d if isinstance(d, str) else d[1] for d in per[n]]
            head = [d for d in decl if not d.startswith('<xsl:template')]
            tail = [d for d in decl if d.startswith('<xsl:template')]
            r.shuffle(head)
            ex = ''
            if r.random() < 0.5:
                ex = ' exclude-result-prefixes="%s"' % r.choice(['p', 'd e', 'p d e', 'e'])
            imp = ''.join('<xsl:import href="%s"/>' % h for h in mods[n]['imports'])
            inc = ''.join('<xsl:include href="%s"/>' % h for h in mods[n]['includes'])
            body = head + tail
            if inc:
                body.insert(r.randint(0, len(body)), inc)
            files[n] = '<xsl:stylesheet version="1.0" %s%s>%s%s</xsl:stylesheet>' % (SHEET_NS, ex, imp, ''.join(body))
        return params


# ---------------------------------------------------------------------------
# one case
# ---------------------------------------------------------------------------
class Case(object):
    def __init__(self, seed, deviant, files=None, params=None, flags=None):
        self.seed = seed
        if files is not None:
            self.files, self.params, self.flags = files, params, flags
            return
        rnd = random.Random(seed)
        self.flags = set()
        self.files = {}
        dg = DocGen(rnd, self.flags, deviant)
        self.files['doc.xml'] = dg.document()
        sg = StyleGen(rnd, self.flags, deviant, dg.ids)
        self.params = sg.generate(self.files)
        if 'ext.xml' in sg.docs:
            eg = DocGen(rnd, set(), False)
            eg.dtd = False
            self.files['ext.xml'] = eg.document()


class Triggers(object):
    """Instrumentation of the reference run: which documented libxslt deviation
    classes does this case exercise?"""

    def __init__(self):
        self.hit = set()

    def order_hook(self, v):
        self.check_order(v)

    def check_order(self, v):
        if _docorder_shape(v):
            self.hit.add('docorder')
        if len(v) > 1 and len(set(id(n.doc) for n in v)) > 1:
            self.hit.add('multidoc-order')


def _inside(x, s):
    n = x.parent
    while n is not None:
        if n is s:
            return True
        n = n.parent
    return False


def _docorder_shape(v):
    """node-set mixing a text/comment/PI node T that has a preceding element
    sibling S with an element or attribute inside S (libxml2 sorts T first)."""
    if len(v) < 2:
        return False
    ts = [n for n in v if n.kind in ('text', 'comment', 'pi') and n.parent is not None]
    if not ts:
        return False
    others = [n for n in v if n.kind in ('element', 'attribute', 'namespace')]
    for t in ts:
        for s in t.parent.children:
            if s is t:
                break
            if s.kind == 'element':
                for o in others:
                    if o.doc is t.doc and (_inside(o, s)):
                        return True
    return False


def run_reference(case, base, trig, emulate=()):
    files = dict((base + n, t) for n, t in case.files.items())

    def res(href, b):
        return files.get(X.urljoin(b or '', href))
    # instrumentation
    rx._order_hook = trig.order_hook
    orig_select = X._select_nodes
    orig_fmt = X.format_number_list
    orig_apply = X._State.apply_to
    orig_copyof = X._CopyOf.run
    orig_strips = X._State.strip_document

    def select_nodes(st, c, select, what):
        v = orig_select(st, c, select, what)
        trig.check_order(v)
        return v

    def fmt(nums, f, gsep=None, gsize=None):
        if not nums:
            trig.hit.add('number-empty')
        return orig_fmt(nums, f, gsep, gsize)

    def apply_to(self, node, pos, size, mode, params, out):
        rule = self.find_rule(node, mode)
        if rule is None:
            if params and node.kind in ('element', 'root') and node.children:
                trig.hit.add('builtin-params')
                if 'builtin-params' in emulate:
                    ch = node.children
                    for i, n in enumerate(ch):
                        self.apply_to(n, i + 1, len(ch), mode, params, out)
                    return
            self.builtin(node, mode, out)
        else:
            self.run_template(rule.template, rule, node, pos, size, mode, params, out)

    def copyof(self, st, c, out):
        v = self.select.eval(st, c)
        if isinstance(v, list):
            trig.check_order(v)
        return orig_copyof(self, st, c, out)

    orig_at = X._ApplyTemplates.run
    orig_ai = X._ApplyImports.run

    def at_run(self, st, c, out):
        if self.select is None and c.node.kind == 'attribute':
            trig.hit.add('attr-children')
        return orig_at(self, st, c, out)

    def ai_run(self, st, c, out):
        if c.node.kind in ('text', 'comment', 'pi'):
            trig.hit.add('apply-imports-leaf')
        if c.rule is not None and c.node.kind in ('root', 'element') and c.node.children:
            m = c.rule.template.merged
            if st.find_rule(c.node, c.mode, m.lo, m.prec) is None:
                trig.hit.add('apply-imports-builtin')
        if c.rule is not None:
            m = c.rule.template.merged
            if st.find_rule(c.node, c.mode, m.lo, m.prec) is not st.find_rule(c.node, c.mode, 0, m.prec):
                trig.hit.add('apply-imports-sibling')
        return orig_ai(self, st, c, out)

    orig_attr = X._Attribute.run
    orig_cmp = rx.compare
    orig_tb = rx.to_boolean
    orig_sort = X._sort_nodes

    def odd_root(v):
        if isinstance(v, list):
            for n in v:
                if n.kind == 'root' and not (len(n.children) == 1 and n.children[0].kind == 'element'):
                    return True
        return False

    def empty_pi(v):
        return isinstance(v, list) and any(n.kind == 'pi' and not n.value for n in v)

    def cmp(op, a, b):
        if empty_pi(a) or empty_pi(b):
            trig.hit.add('libxml2-empty-pi')
        if op in ('=', '!=') and (odd_root(a) or odd_root(b)):
            trig.hit.add('root-eq-hash')
        return orig_cmp(op, a, b)

    def tb(v):
        if isinstance(v, list) and len(v) == 1 and v[0].kind == 'root' and getattr(v[0].doc, 'rtf', False) \
                and not v[0].children:
            trig.hit.add('rtf-empty-boolean')
        return orig_tb(v)

    def has_fn(e, names):
        if isinstance(e, tuple):
            if e and e[0] == 'fn' and e[1] is None and e[2] in names:
                return True
            return any(has_fn(x, names) for x in e)
        return False

    def sort_nodes(st, c, nodes, sorts):
        for sp in sorts[1:]:
            if has_fn(sp.select.ast, ('position', 'last')):
                trig.hit.add('sort-secondary-position')
        return orig_sort(st, c, nodes, sorts)

    orig_force = X._Globals.force

    def force(self, key):
        if self.active and key in self.defs:
            trig.hit.add('global-lazy-context')
        return orig_force(self, key)

    X._Globals.force = force
    orig_match = X._Pattern.matches

    def matches(self, st, node, variables):
        if node.kind == 'attribute' and node.uri and '@' in self.text:
            trig.hit.add('pattern-attr-ns')
        if '[' in self.text and node.kind == 'element' and node.parent is not None:
            for sib in node.parent.children:
                if sib.kind == 'element' and sib.local == node.local and sib.uri != node.uri:
                    trig.hit.add('pattern-pos-samelocal')
                    break
        return orig_match(self, st, node, variables)

    X._Pattern.matches = matches
    orig_docfn = X._State.f_document
    main_uri = base + 'main.xsl'

    def f_document(self, ctx, args):
        if len(args) > 1 and isinstance(args[1], list) and args[1]:
            d = args[1][0].doc
            if getattr(d, 'rtf', False) or getattr(d, 'from_rtf', False):
                trig.hit.add('rtf-base-uri')
        if isinstance(args[0], list):
            for n in args[0]:
                if len(args) == 1 and (getattr(n.doc, 'rtf', False) or getattr(n.doc, 'from_rtf', False)):
                    trig.hit.add('rtf-base-uri')
        elif len(args) == 1 and ctx.namespaces.get('#base') != main_uri:
            trig.hit.add('document-base-module')
        return orig_docfn(self, ctx, args)

    X._State.f_document = f_document
    orig_sets = X._State.apply_attrsets

    def apply_attrsets(self, names, c, out):
        for nm in names:
            defs = self.sheet.attrsets[nm]
            if len(defs) > 1 and any(d.uses for d in defs):
                trig.hit.add('attrset-multidef-uses')
        return orig_sets(self, names, c, out)

    X._State.apply_attrsets = apply_attrsets
    orig_s2n = rx.string_to_number

    def s2n(sv):
        t = sv.strip(' \t\r\n')
        if t == '-' or ('e' in t.lower() and t.lower().replace('e', '').replace('-', '').replace('+', '').replace('.', '').isdigit()):
            trig.hit.add('libxml2-strnum')
        return orig_s2n(sv)

    rx.string_to_number = s2n
    rx.compare = cmp
    rx.to_boolean = tb
    X._sort_nodes = sort_nodes

    def attr_run(self, st, c, out):
        if self.namespace is not None:
            q = X._split_qname(self.name.eval(st, c))
            uri = self.namespace.eval(st, c)
            if q is not None and q[0] and q[0] in self.nsmap and self.nsmap[q[0]] != uri:
                trig.hit.add('attr-ns-prefix-clash')
            cur = getattr(out, 'cur', None)
            if uri and cur is not None and cur.kind == 'element' and cur.uri == uri and not cur.prefix:
                trig.hit.add('attr-in-default-ns')
        return orig_attr(self, st, c, out)

    X._Attribute.run = attr_run
    orig_elem = X._Element.run

    def elem_run(self, st, c, out):
        if self.namespace is not None:
            q = X._split_qname(self.name.eval(st, c))
            if q is not None and q[0] and q[0] in self.nsmap and self.nsmap[q[0]] != self.namespace.eval(st, c):
                trig.hit.add('element-ns-prefix-clash')
        return orig_elem(self, st, c, out)

    X._Element.run = elem_run
    X._ApplyTemplates.run = at_run
    X._ApplyImports.run = ai_run
    X._select_nodes = select_nodes
    X.format_number_list = fmt
    X._State.apply_to = apply_to
    X._CopyOf.run = copyof
    try:
        sheet = X.compile_stylesheet(files[base + 'main.xsl'], base + 'main.xsl', res)
        doc = model.parse_document(files[base + 'doc.xml'], base + 'doc.xml')
        msgs = []
        r = X.transform(sheet, doc, case.params, res, msgs)
        return r
    finally:
        rx._order_hook = None
        X._select_nodes = orig_select
        X.format_number_list = orig_fmt
        X._State.apply_to = orig_apply
        X._CopyOf.run = orig_copyof
        X._ApplyTemplates.run = orig_at
        X._Attribute.run = orig_attr
        X._Element.run = orig_elem
        rx.compare = orig_cmp
        rx.string_to_number = orig_s2n
        X._Globals.force = orig_force
        X._Pattern.matches = orig_match
        X._State.f_document = orig_docfn
        X._State.apply_attrsets = orig_sets
        rx.to_boolean = orig_tb
        X._sort_nodes = orig_sort
        X._ApplyImports.run = orig_ai


def run_xsltproc(case, d):
    for n, t in case.files.items():
        with open(os.path.join(d, n), 'w', encoding='utf-8') as f:
            f.write(t)
    cmd = ['xsltproc', '--nonet', '--novalid']
    for k, v in sorted(case.params.items()):
        if isinstance(v, str):
            cmd += ['--stringparam', k, v]
        elif isinstance(v, bool):
            cmd += ['--param', k, 'true()' if v else 'false()']
        else:
            cmd += ['--param', k, repr(int(v)) if v == int(v) else repr(v)]
    cmd += [os.path.join(d, 'main.xsl'), os.path.join(d, 'doc.xml')]
    try:
        p = subprocess.run(cmd, stdout=subprocess.PIPE, stderr=subprocess.PIPE, timeout=20)
    except subprocess.TimeoutExpired:
        return None, 'timeout', ''
    return p.returncode, p.stdout.decode('utf-8', 'replace'), p.stderr.decode('utf-8', 'replace')


def normalize(ev, top=True):
    """Comparison form: top-level whitespace-only text dropped and top-level
    text trimmed (serializer newlines); leading whitespace of PI data dropped
    (lost by serialization); empty comments dropped (libxml2 does not
    serialize a comment node without content)."""
    out = []
    for e in ev:
        if e[0] == 'T':
            s = e[1]
            if top:
                s = s.strip(' \t\r\n')
                if not s:
                    continue
            if out and out[-1][0] == 'T':
                out[-1] = ('T', out[-1][1] + s)
            else:
                out.append(('T', s))
        elif e[0] == 'P':
            out.append(('P', e[1], e[2].lstrip(' \t\r\n')))
        elif e[0] == 'C':
            if e[1] != '':
                out.append(e)
        else:
            out.append(('E', e[1], e[2], normalize(e[3], False)))
    return out


def strip_top(ev):
    return normalize(ev)


def parse_output(text, want_doc=False):
    d = model.parse_document('<W__>' + text + '</W__>')
    if want_doc:
        return d
    return X.model_to_events(d.root)[0][3]


def ns_sets_ref(node, inherited, out):
    """per element (pre-order): set of namespace URIs that must be in scope =
    namespace nodes of the element and its ancestors + URIs of the names used"""
    for c in node.children:
        if c.kind != 'element':
            continue
        u = set(inherited)
        u.update(v for v in c.namespaces.values() if v)
        if c.uri:
            u.add(c.uri)
        for a in c.attributes:
            if a.uri and a.uri != X.XML_NS:
                u.add(a.uri)
        out.append(u)
        ns_sets_ref(c, u, out)


def ns_sets_lib(node, out):
    for c in node.children:
        if c.kind != 'element':
            continue
        out.append(set(n.value for n in c.namespaces if n.local != 'xml'))
        ns_sets_lib(c, out)


def run_case(seed, deviant, tmp, keep=False, case=None):
    """-> (status, classes, detail)   status: agree | unsupported | ref-error |
    gen-error | libxslt-error | differ"""
    if case is None:
        case = Case(seed, deviant)
    d = os.path.join(tmp, 'c%d' % seed)
    os.makedirs(d, exist_ok=True)
    base = 'file://' + d + '/'
    trig = Triggers()
    try:
        try:
            r = run_reference(case, base, trig)
        except X.XSLTUnsupported as e:
            return 'unsupported', set(), str(e)[:100]
        except (X.XSLTStaticError, X.XSLTDynamicError) as e:
            rc, out, err = run_xsltproc(case, d)
            return 'ref-error', set(), '%s: %s || xsltproc rc=%s %s' % (type(e).__name__, e, rc, err[:200])
        except RecursionError:
            return 'unsupported', set(), 'recursion'
        mine = strip_top(X.dump(r))
        rc, out, err = run_xsltproc(case, d)
        classes = set(trig.hit)
        if 'doc-xmlspace' in case.flags and 'strip' in case.flags:
            classes.add('xmlspace-strip')
        for f in ('number-from', 'pattern-deviant'):
            if f in case.flags:
                classes.add(f)
        if r.recoveries:
            classes.add('recovery:' + ','.join(sorted(r.recoveries)))
        if rc != 0 or rc is None:
            return 'libxslt-error', classes, 'rc=%s %s' % (rc, err[:300])
        try:
            theirs = strip_top(parse_output(out))
        except ValueError as e:
            return 'libxslt-error', classes, 'unparsable output: %s' % e
        if mine == theirs:
            a, b = [], []
            ns_sets_ref(r, set(), a)
            ns_sets_lib(parse_output(out, True).root.children[0], b)
            ex = 'http://exslt.org/common'
            a = [x - set([ex]) for x in a]
            b = [x - set([ex]) for x in b]
            # libxslt copies the inherited namespace nodes only to literal result
            # elements that are direct children of xsl:template (not to those
            # nested in xsl:if/for-each/...), so only "every namespace libxslt
            # has in scope is one the Recommendation puts there" is checked
            sub = len(a) == len(b) and all(y <= x for x, y in zip(a, b))
            if not sub and not any('namespace-alias' in t for t in case.files.values()):
                if any('<xsl:include' in t for t in case.files.values()) and any('exclude-result-prefixes' in t for t in case.files.values()):
                    classes.add('exclude-include')
                if any('xsl:exclude-result-prefixes' in t for t in case.files.values()):
                    classes.add('lre-exclude-self')
                return 'ns-differ', classes, 'ref %r\n   libxslt %r\n   %s' % (a, b, out[:300])
            return 'agree', classes, ''
        if 'builtin-params' in classes:
            # libxslt passes parameters through the built-in rules: verify that
            # this alone explains the difference
            t2 = Triggers()
            try:
                r2 = run_reference(case, base, t2, emulate=('builtin-params',))
                if strip_top(X.dump(r2)) == theirs:
                    return 'differ', set(['builtin-params(emulated)']), ''
            except Exception:                                        # noqa
                pass
            classes.discard('builtin-params')
        return 'differ', classes, 'ref     %r\n   libxslt %r\n   stderr %s' % (mine, theirs, err[:200])
    finally:
        if not keep:
            shutil.rmtree(d, ignore_errors=True)


def reduce_case(seed, deviant, tmp):
    """Greedy structural reduction of a disagreeing case (debugging aid)."""
    from xml.dom import minidom
    case = Case(seed, deviant)
    st0 = run_case(seed, deviant, tmp, case=case)
    def sig(st):
        return (st[0], tuple(sorted(c for c in st[1] if c.startswith('recovery:'))))
    want = sig(st0)
    print('reducing seed %d, status %s' % (seed, want))
    files = dict(case.files)

    def still(fs):
        try:
            st = run_case(seed, deviant, tmp, case=Case(seed, deviant, fs, case.params, case.flags))
        except Exception:
            return False
        return sig(st) == want

    def nodes_of(dom):
        out = []
        stack = [dom.documentElement]
        while stack:
            n = stack.pop()
            out.append(n)
            stack.extend(reversed([c for c in n.childNodes]))
        return out
    changed = True
    while changed:
        changed = False
        for name in sorted(files):
            i = 1
            while True:
                dom = minidom.parseString(files[name].encode('utf-8'))
                ns = nodes_of(dom)
                if i >= len(ns):
                    break
                n = ns[i]
                done = False
                # 1. delete the node
                par = n.parentNode
                par.removeChild(n)
                t = dom.documentElement.toxml()
                if '<!DOCTYPE' in files[name]:
                    t = files[name][:files[name].index(']>') + 2] + t
                fs = dict(files)
                fs[name] = t
                if still(fs):
                    files = fs
                    changed = done = True
                elif n.nodeType == n.ELEMENT_NODE and n.childNodes:
                    # 2. replace the element by its children
                    dom = minidom.parseString(files[name].encode('utf-8'))
                    n = nodes_of(dom)[i]
                    par = n.parentNode
                    for c in list(n.childNodes):
                        par.insertBefore(c, n)
                    par.removeChild(n)
                    t = dom.documentElement.toxml()
                    if '<!DOCTYPE' in files[name]:
                        t = files[name][:files[name].index(']>') + 2] + t
                    fs = dict(files)
                    fs[name] = t
                    if still(fs):
                        files = fs
                        changed = done = True
                if not done and n.nodeType == n.ELEMENT_NODE and n.attributes is not None:
                    # 3. delete attributes
                    for an in list(n.attributes.keys()):
                        dom = minidom.parseString(files[name].encode('utf-8'))
                        m = nodes_of(dom)[i]
                        if not m.hasAttribute(an) or an.startswith('xmlns') or an in ('version', 'name', 'match', 'select', 'test', 'href'):
                            continue
                        m.removeAttribute(an)
                        t = dom.documentElement.toxml()
                        if '<!DOCTYPE' in files[name]:
                            t = files[name][:files[name].index(']>') + 2] + t
                        fs = dict(files)
                        fs[name] = t
                        if still(fs):
                            files = fs
                            changed = True
                if not done:
                    i += 1
    for n, t in sorted(files.items()):
        print('---- %s\n%s' % (n, t))
    st = run_case(seed, deviant, tmp, case=Case(seed, deviant, files, case.params, case.flags))
    print('---- params %r flags %r' % (case.params, case.flags))
    print('---- %s %s\n   %s' % st)


def worker(args):
    seeds, deviant, tmp = args
    sys.setrecursionlimit(6000)
    res = []
    for s in seeds:
        try:
            res.append((s,) + run_case(s, deviant, tmp))
        except Exception:                                            # noqa
            res.append((s, 'crash', set(), traceback.format_exc()[-1500:]))
    return res


def main():
    ap = argparse.ArgumentParser()
    ap.add_argument('-n', type=int, default=2000)
    ap.add_argument('-s', type=int, default=1)
    ap.add_argument('-j', type=int, default=16)
    ap.add_argument('--deviant', action='store_true', help='also generate triggers of documented libxslt deviations')
    ap.add_argument('--show', type=int, help='run one seed, keep and print everything')
    ap.add_argument('--reduce', type=int, help='greedily reduce a disagreeing seed')
    ap.add_argument('--seeds-of', help='print the seeds of non-agreeing cases whose class list contains this substring')
    ap.add_argument('-v', action='store_true')
    ap.add_argument('--max-print', type=int, default=12)
    a = ap.parse_args()
    tmp = tempfile.mkdtemp(prefix='xvl', dir='/dev/shm' if os.path.isdir('/dev/shm') else None)
    try:
        if a.reduce is not None:
            reduce_case(a.reduce, a.deviant, tmp)
            return 0
        if a.show is not None:
            st = run_case(a.show, a.deviant, tmp, keep=True)
            c = Case(a.show, a.deviant)
            for n, t in sorted(c.files.items()):
                print('---- %s\n%s' % (n, t))
            print('---- params %r flags %r' % (c.params, c.flags))
            print('---- %s %s\n   %s' % st)
            print('files kept in', os.path.join(tmp, 'c%d' % a.show))
            return 0
        seeds = list(range(a.s, a.s + a.n))
        chunk = 25
        jobs = [(seeds[i:i + chunk], a.deviant, tmp) for i in range(0, len(seeds), chunk)]
        t0 = time.time()
        stats = {}
        byclass = {}
        printed = 0
        bad = 0
        badseeds = []
        unsup = {}
        trigstat = {}
        with Pool(a.j) as pool:
            for res in pool.imap_unordered(worker, jobs):
                for seed, status, classes, detail in res:
                    stats[status] = stats.get(status, 0) + 1
                    for c in classes:
                        c = c.split(':')[0]
                        e = trigstat.setdefault(c, [0, 0])
                        e[0 if status == 'agree' else 1] += 1
                    if status == 'unsupported':
                        if a.seeds_of and a.seeds_of in detail:
                            print('seed %d unsupported %s' % (seed, detail))
                        k = detail[:60]
                        unsup[k] = unsup.get(k, 0) + 1
                    if status in ('agree', 'unsupported'):
                        continue
                    explained = sorted(c for c in classes if not c.startswith('recovery:')) if status in ('differ', 'libxslt-error', 'ns-differ') else []
                    rec = [c for c in classes if c.startswith('recovery:')]
                    key = (status, tuple(explained or rec))
                    if a.seeds_of and a.seeds_of in ','.join(sorted(classes)):
                        print('seed %d %s %s' % (seed, status, sorted(classes)))
                    byclass[key] = byclass.get(key, 0) + 1
                    if not explained and not rec or status in ('ref-error', 'crash'):
                        bad += 1
                        badseeds.append(seed)
                        if printed < a.max_print:
                            printed += 1
                            print('UNEXPLAINED seed=%d %s %s\n   %s' % (seed, status, sorted(classes), detail))
                    elif a.v and byclass[key] <= 2:
                        print('explained seed=%d %s %s\n   %s' % (seed, status, sorted(classes), detail))
        dt = time.time() - t0
        print('%d cases in %.1f s: %s' % (len(seeds), dt, ', '.join('%s=%d' % kv for kv in sorted(stats.items()))))
        for key, n in sorted(byclass.items(), key=lambda kv: -kv[1]):
            print('   %-14s %-50s %d' % (key[0], ','.join(key[1]) or '(none: UNEXPLAINED)', n))
        print('trigger frequency (cases agreeing / not agreeing while the trigger fired):')
        for k, (ag, dis) in sorted(trigstat.items()):
            print('   %-28s %6d %6d' % (k, ag, dis))
        for k, n in sorted(unsup.items(), key=lambda kv: -kv[1])[:12]:
            print('   unsupported: %-60s %d' % (k, n))
        print('unexplained: %d %s' % (bad, sorted(badseeds)[:40]))
        return 1 if bad else 0
    finally:
        if a.show is None:
            shutil.rmtree(tmp, ignore_errors=True)


if __name__ == '__main__':
    sys.exit(main())
