"""Shared plumbing for the XPath-level properties (C02, C09, C11, C12): turn a generated case into a driver request
and into a reference evaluation."""
import math
import struct

from hypothesis import strategies as st

from . import gen_xml, gen_xpath, model, ref_xpath

NSMAP = {'p': 'urn:p', 'q': 'urn:q',
         'set': 'http://exslt.org/sets', 'math': 'http://exslt.org/math', 'str': 'http://exslt.org/strings',
         'exsl': 'http://exslt.org/common', 'dyn': 'http://exslt.org/dynamic', 'xalan': 'http://xml.apache.org/xalan'}


def bits(x):
    return 'x%016x' % struct.unpack('<Q', struct.pack('<d', x))[0]


def unbits(s):
    return struct.unpack('<d', struct.pack('<Q', int(s, 16)))[0]


def same_num(a, b):
    if a != a and b != b:
        return True
    return struct.pack('<d', a) == struct.pack('<d', b)


@st.composite
def cases(draw, depth=3, kind=None, astral=False, docform=None):
    xml = draw(gen_xml.documents(astral=astral))
    expr = draw(gen_xpath.expressions(depth, kind))
    ctx = draw(st.integers(0, 80))
    # a context always has a position and a size (XPath 1): a context node list is always supplied; the
    # overloads without one leave position()/last() at 0, which is outside the property's domain
    ctxlist = []
    if draw(st.integers(0, 2)) == 0:
        ctxlist = draw(st.lists(st.integers(0, 80), min_size=0, max_size=5))
    return {'xml': xml, 'expr': expr['expr'], 'kind': expr['kind'], 'ntok': expr['ntok'], 'ctx': ctx, 'ctxlist': ctxlist,
            'vars': draw(gen_xpath.bindings()), 'docform': docform or draw(st.sampled_from(['native', 'native', 'xerces'])),
            'prior': draw(priors())}


@st.composite
def priors(draw):
    """expressions that the same execution context evaluates, converts in every way and releases before the expression under test (the
    driver's prior= field): within a transformation one context and one object factory serve every evaluation, and recycle their objects"""
    if draw(st.integers(0, 2)):
        return []
    return [draw(gen_xpath.expressions(1, draw(st.sampled_from(['ns', 'ns', 'ns', 'str', 'num']))))['expr'] for _ in range(draw(st.integers(1, 3)))]


class Prepared(object):
    """document parsed by the reference model, context resolved, variables resolved"""

    def __init__(self, case):
        self.case = case
        self.doc = model.parse_document(case['xml'])
        nodes = self.doc.nodes(attrs=True, ns=False)
        self.nodes = nodes
        self.ctx = nodes[case['ctx'] % len(nodes)]
        self.pos, self.size = 1, 1
        self.ctxlist = None
        if case.get('ctxlist') is not None:
            lst = []
            for i in case['ctxlist']:
                n = nodes[i % len(nodes)]
                if n not in lst:
                    lst.append(n)
            if self.ctx not in lst:
                lst.insert(len(lst) // 2, self.ctx)
            self.ctxlist = lst
            self.pos = lst.index(self.ctx) + 1
            self.size = len(lst)
        v = case.get('vars') or {}
        self.vars = {}
        self.varfields = []
        for name in ('n1', 'n2'):
            if name in v:
                x = float(v[name])
                self.vars[name] = x
                self.varfields.append(('var', '%s\x1fn\x1f%s' % (name, bits(x))))
        for name in ('s1', 's2'):
            if name in v:
                self.vars[name] = v[name]
                self.varfields.append(('var', '%s\x1fs\x1f%s' % (name, v[name])))
        if 'b1' in v:
            self.vars['b1'] = bool(v['b1'])
            self.varfields.append(('var', 'b1\x1fb\x1f%d' % (1 if v['b1'] else 0)))
        for name in ('ns1', 'ns2', 'ns3'):
            if name not in v:
                continue
            if v[name] is None:
                self.vars[name] = self.vars.get('ns1', [])
                self.varfields.append(('var', '%s\x1falias\x1fns1' % name))
                continue
            sel = sorted({nodes[i % len(nodes)] for i in v[name]}, key=lambda n: n.order)
            # the relative order of the attribute nodes of one element is implementation-dependent (XPath 5.3): a node-set variable holds at
            # most one attribute per element, so that positional predicates on it ($ns2[last()]) have a defined answer
            seen_parents = set()
            keep = []
            for n in sel:
                if n.kind == 'attribute':
                    if id(n.parent) in seen_parents:
                        continue
                    seen_parents.add(id(n.parent))
                keep.append(n)
            sel = keep
            self.vars[name] = sel
            self.varfields.append(('var', '%s\x1fns\x1f%s\x1fdoc' % (name, '\n'.join(n.key for n in sel))))

    def ref_context(self, functions=None):
        return ref_xpath.Context(self.ctx, self.pos, self.size, dict(self.vars), dict(NSMAP), functions or {})

    def request_fields(self):
        f = [('ns', '%s=%s' % kv) for kv in NSMAP.items()] + list(self.varfields)
        if self.ctxlist is not None:
            f.append(('ctxlist', '\n'.join(n.key for n in self.ctxlist)))
        for e in self.case.get('prior') or []:
            f.append(('prior', e))
        return f

    def call(self, ctx, expr, only='g', pattern=False):
        """ctx: runner.Ctx.  An abort in an assertion that is a recorded Debug-configuration finding (field
        "fallback": "ndebug" in known_findings.jsonl) is answered by the NDEBUG sanitizer build instead, so that the
        case is still judged (DESIGN 2.7 point 6)."""
        from .drv import DriverCrash, crash_signature
        try:
            return self._call(ctx.drv, expr, only, pattern)
        except DriverCrash as e:
            sig = 'crash:' + crash_signature(e.stderr)
            kf = ctx.findings.match_any(sig)
            if kf is None or kf.get('fallback') != 'ndebug':
                raise
            ctx.known_seen[kf['id']] += 1
            ctx.counters['fallback:ndebug'] += 1
            return self._call(ctx.drv_flavor('ndebug'), expr, only, pattern)

    def _call(self, drv, expr, only='g', pattern=False):
        kw = dict(doc=self.case['xml'].encode('utf-8'), expr=expr, ctx=self.ctx.key, only=only, docform=self.case.get('docform', 'native'))
        if pattern:
            kw['pattern'] = 1
        r = drv.call('xpath', self.request_fields(), **kw)
        if r.has('fatal') or r.has('escaped.kind') or r.has('doc.err'):
            raise RuntimeError('harness problem: %r' % (r.fields[:4],))
        return r


def ref_eval(prep, expr, functions=None):
    """-> ('ok', value) | ('syntax'|'static'|'dynamic'|'unspecified', message)"""
    try:
        ast = ref_xpath.parse(expr)
    except ref_xpath.XPathSyntaxError as e:
        return ('syntax', str(e))
    try:
        return ('ok', ref_xpath.evaluate(ast, prep.ref_context(functions)))
    except ref_xpath.XPathStaticError as e:
        return ('static', str(e))
    except ref_xpath.XPathDynamicError as e:
        return ('dynamic', str(e))
    except ref_xpath.XPathUnspecified as e:
        return ('unspecified', str(e))


def type_of(v):
    if isinstance(v, bool):
        return 'boolean'
    if isinstance(v, float):
        return 'number'
    if isinstance(v, str):
        return 'string'
    return 'nodeset'


def expr_features(expr):
    """coarse feature set of an expression text, for classification and signatures"""
    import re
    f = set()
    for ax in gen_xpath.FWD_AXES + gen_xpath.REV_AXES + ['namespace']:
        if re.search(r'(?<![\w-])%s\s*::' % ax, expr):
            f.add('axis:' + ax)
    for fn in ('last', 'position', 'count', 'id', 'local-name', 'namespace-uri', 'name', 'string', 'concat', 'starts-with', 'contains',
               'substring-before', 'substring-after', 'substring', 'string-length', 'normalize-space', 'translate', 'boolean', 'not',
               'true', 'false', 'lang', 'number', 'sum', 'floor', 'ceiling', 'round'):
        if re.search(r'(?<![\w:-])%s\s*\(' % fn, expr):
            f.add('fn:' + fn)
    for op, nm in (('|', 'union'), ('//', 'dslash'), ('..', 'dotdot'), ('@', 'at'), ('$', 'var'), ('!=', 'ne'), ('<=', 'le'), ('>=', 'ge')):
        if op in expr:
            f.add('op:' + nm)
    for op in ('div', 'mod', 'and', 'or'):
        if re.search(r'(?<![\w:$@-])%s(?![\w(:-])' % op, expr):
            f.add('op:' + op)
    if re.search(r'\[\s*\d', expr):
        f.add('pred:number')
    if re.search(r'\)\s*\[', expr):
        f.add('filter')
    return f
