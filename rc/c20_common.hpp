// C20 - common harness for the rapidcheck state-machine targets.
//
// Every target is one executable with one rapidcheck property "C20/<Target>".
// A test case = generated configuration + generated command sequence, executed
// lock-step on the Xalan container (SUT) and on the std model.
//
// Environment (set by py/vf/props/c20_evidence.py, never by hand in a check):
//   RC_PARAMS      rapidcheck parameters (seed=, max_success=, max_size=, reproduce=)
//   C20_TRACE      file that always holds the resolved command sequence of the
//                  case being executed (rewritten per case, one write() per
//                  command, so that a sanitizer abort leaves the sequence behind)
//   C20_FAIL       file that receives the record of the last failing case
//                  (after shrinking this is the minimal one)
//   C20_STATS      file that receives the counters of this run (JSON)
//   C20_HASHES     file that receives the 64-bit hashes of the distinct
//                  non-trivial sequences (binary, for cross-seed de-duplication)
//   C20_EXCLUDE    comma separated names of operation patterns excluded by
//                  construction (known findings)
//   C20_ONLY       comma separated pattern names: probe mode, every case must
//                  contain at least one op of these patterns (others still run)
//   C20_FORK=1     run every case in a forked child so that aborts (assert,
//                  ASan, UBSan) become ordinary failures that rapidcheck shrinks
#pragma once

#include <rapidcheck.h>
#include <rapidcheck/state.h>

#include <xercesc/util/PlatformUtils.hpp>
#include <xercesc/framework/MemoryManager.hpp>
#include <xalanc/Include/PlatformDefinitions.hpp>
#include <xalanc/Include/XalanMemoryManagement.hpp>

#include <algorithm>
#include <cstdarg>
#include <cstdint>
#include <cstdio>
#include <cstdlib>
#include <cstring>
#include <fcntl.h>
#include <map>
#include <set>
#include <sstream>
#include <string>
#include <sys/wait.h>
#include <unistd.h>
#include <unordered_map>
#include <unordered_set>
#include <vector>

// C API entry point of libxalan-c: XMLPlatformUtils::Initialize() + XalanTransformer::initialize()
extern "C" int XalanInitialize(void);

namespace c20 {

// ---------------------------------------------------------------------------
// global per-process state
// ---------------------------------------------------------------------------
struct Globals {
    std::string target;
    std::set<std::string> exclude, only;
    bool forkMode = false;
    int traceFd = -1;
    std::string failPath, statsPath, hashPath;

    // per case
    std::string trace;        // resolved sequence text
    std::string curOp;        // name of the command being executed
    std::string opSuffix;     // state class appended to curOp in signatures (e.g. "+nul")
    std::string deferred;     // error noted where throwing is impossible (dtors)
    bool growth = false, erased = false, onlyHit = false;
    long ncmds = 0;

    // per run
    long evaluations = 0, nontrivial = 0, growthCases = 0, eraseCases = 0, cmdsTotal = 0, failures = 0;
    std::unordered_set<uint64_t> hashes;
    std::map<std::string, long> opCount, excluded;
    std::vector<std::string> samples;
};
inline Globals& G() { static Globals g; return g; }

inline bool patternEnabled(const char* name) { return G().exclude.count(name) == 0; }
// call where the generator would have produced the pattern but it is excluded
inline void countExcluded(const char* name) { ++G().excluded[name]; }
inline void noteOnly(const char* name) { if (G().only.count(name)) G().onlyHit = true; }

inline uint64_t fnv(const std::string& s) {
    uint64_t h = 1469598103934665603ull;
    for (unsigned char c : s) { h ^= c; h *= 1099511628211ull; }
    return h;
}

inline void traceWrite(const char* p, size_t n) {
    G().trace.append(p, n);
    if (G().traceFd >= 0) { ssize_t r = ::write(G().traceFd, p, n); (void) r; }
}

// begin a command: logs "name(args)" BEFORE the operation is executed
inline void op(const char* name, const char* fmt = "", ...) {
    char buf[512];
    int k = snprintf(buf, sizeof buf, "%s%s(", name, G().opSuffix.c_str());
    va_list ap; va_start(ap, fmt);
    k += vsnprintf(buf + k, sizeof buf - k - 3, fmt, ap);
    va_end(ap);
    if (k > (int) sizeof buf - 3) k = sizeof buf - 3;
    buf[k++] = ')'; buf[k++] = '\n';
    traceWrite(buf, k);
    G().curOp = std::string(name) + G().opSuffix;
    ++G().opCount[name];
    ++G().ncmds;
}
inline void header(const char* fmt, ...) {
    char buf[512];
    va_list ap; va_start(ap, fmt);
    int k = vsnprintf(buf, sizeof buf - 2, fmt, ap);
    va_end(ap);
    if (k > (int) sizeof buf - 2) k = sizeof buf - 2;
    buf[k++] = '\n';
    traceWrite(buf, k);
}
inline void markGrowth() { G().growth = true; }
inline void markErase() { G().erased = true; }
inline void deferError(const std::string& s) { if (G().deferred.empty()) G().deferred = s; }

#define C20_CHECK(cond) RC_ASSERT(cond)

inline void checkDeferred() {
    if (!G().deferred.empty()) {
        std::string d = G().deferred;
        G().deferred.clear();
        RC_FAIL(d);
    }
}

// ---------------------------------------------------------------------------
// counting memory manager
// ---------------------------------------------------------------------------
class CountingMM : public xercesc::MemoryManager {
public:
    explicit CountingMM(const char* n) : name(n) {}
    ~CountingMM() { for (auto& kv : live) ::free(kv.first); }

    void* allocate(XMLSize_t n) override {
        void* p = ::malloc(n ? n : 1);   // exact size: ASan red zones right behind the block
        live[p] = n;
        ++allocs;
        bytes += n;
        return p;
    }
    void deallocate(void* p) override {
        if (p == nullptr) { ++nullFrees; return; }
        auto it = live.find(p);
        if (it == live.end()) {
            ++foreign;
            deferError(std::string("memory manager ") + name + ": deallocate of a block it does not own (foreign or double free) during " + G().curOp);
            return;
        }
        live.erase(it);
        ++frees;
        ::free(p);
    }
    xercesc::MemoryManager* getExceptionMemoryManager() override { return this; }

    size_t outstanding() const { return live.size(); }

    const char* name;
    std::unordered_map<void*, size_t> live;
    size_t allocs = 0, frees = 0, foreign = 0, nullFrees = 0, bytes = 0;
};

// ---------------------------------------------------------------------------
// non-trivial element type with instance tracking
// ---------------------------------------------------------------------------
struct Counted {
    static std::unordered_set<const Counted*>& addrs() { static std::unordered_set<const Counted*> s; return s; }
    static long live() { return (long) addrs().size(); }
    static void resetTracking() { addrs().clear(); }

    int v;
    Counted() : v(0) { born(); }
    Counted(int x) : v(x) { born(); }
    Counted(const Counted& o) : v(o.v) { o.mustLive("copy-construct from"); born(); }
    Counted& operator=(const Counted& o) {
        o.mustLive("assign from"); mustLive("assign to");
        v = o.v; return *this;
    }
    ~Counted() {
        if (addrs().erase(this) == 0) deferError("Counted: destructor on memory that holds no live object (double destroy) during " + G().curOp);
        v = -77777;
    }
    bool operator==(const Counted& o) const { return v == o.v; }
    bool operator!=(const Counted& o) const { return v != o.v; }
    bool operator<(const Counted& o) const { return v < o.v; }
private:
    void born() {
        if (!addrs().insert(this).second) deferError("Counted: constructed over a live object (missing destroy) during " + G().curOp);
    }
    void mustLive(const char* what) const {
        if (!addrs().count(this)) deferError(std::string("Counted: ") + what + " raw memory (missing construct) during " + G().curOp);
    }
};
inline int val(int x) { return x; }
inline int val(const Counted& c) { return c.v; }

// ---------------------------------------------------------------------------
// generic command: (code, a, b, c, d) interpreted by the target
// ---------------------------------------------------------------------------
struct Op { int code, a, b, c, d; };

template <class T>
struct Cmd : rc::state::Command<typename T::Model, typename T::Sut> {
    Op o;
    explicit Cmd(Op x) : o(x) {}
    void checkPreconditions(const typename T::Model& m) const override { RC_PRE(T::valid(m, o)); }
    void apply(typename T::Model& m) const override { T::apply(m, o); }
    void run(const typename T::Model& m, typename T::Sut& s) const override {
        T::run(m, s, o);
        checkDeferred();
    }
    void show(std::ostream& os) const override {
        os << T::name(o.code) << "[" << o.a << "," << o.b << "," << o.c << "," << o.d << "]";
    }
};

// small-range generator that does not collapse at small rapidcheck sizes
inline rc::Gen<int> range(int lo, int hi) {   // [lo, hi)
    return rc::gen::resize(1000, rc::gen::inRange(lo, hi));
}
inline rc::Gen<Op> genOpWeighted(const std::vector<int>& weights) {
    // weighted op code (index into weights), four free integer arguments
    std::vector<int> table;
    for (size_t i = 0; i < weights.size(); ++i)
        for (int k = 0; k < weights[i]; ++k) table.push_back((int) i);
    return rc::gen::map(
        rc::gen::tuple(rc::gen::elementOf(table), range(0, 1 << 16), range(0, 1 << 16), range(0, 1 << 16), range(0, 1 << 16)),
        [](const std::tuple<int, int, int, int, int>& t) {
            return Op{std::get<0>(t), std::get<1>(t), std::get<2>(t), std::get<3>(t), std::get<4>(t)};
        });
}

// ---------------------------------------------------------------------------
// failure record / statistics
// ---------------------------------------------------------------------------
inline std::string readFile(const std::string& p, size_t max = 6000) {
    std::string out;
    FILE* f = fopen(p.c_str(), "r");
    if (!f) return out;
    char buf[4096]; size_t n;
    while ((n = fread(buf, 1, sizeof buf, f)) > 0 && out.size() < max) out.append(buf, n);
    fclose(f);
    return out;
}

inline std::string classify(const std::string& err) {
    if (err.find("AddressSanitizer") != std::string::npos) return "asan";
    if (err.find("runtime error:") != std::string::npos) return "ubsan";
    if (err.find("Assertion") != std::string::npos) return "assert";
    return "crash";
}

inline void writeFailRecord(const std::string& kind, const std::string& lastOp, const std::string& msg,
                            const std::string& seq, const std::string& err) {
    ++G().failures;
    if (G().failPath.empty()) return;
    std::string tmp = G().failPath + ".tmp";
    FILE* f = fopen(tmp.c_str(), "w");
    if (!f) return;
    fprintf(f, "target=%s\nsignature=%s:%s:%s\n--- message\n%s\n--- sequence\n%s--- stderr\n%s\n",
            G().target.c_str(), G().target.c_str(), lastOp.c_str(), kind.c_str(), msg.c_str(), seq.c_str(), err.c_str());
    fclose(f);
    rename(tmp.c_str(), G().failPath.c_str());
}

inline std::string jsonEsc(const std::string& s) {
    std::string o;
    for (unsigned char c : s) {
        if (c == '"' || c == '\\') { o += '\\'; o += c; }
        else if (c == '\n') o += "\\n";
        else if (c < 0x20 || c >= 0x7f) { char b[8]; snprintf(b, sizeof b, "\\u%04x", c); o += b; }
        else o += c;
    }
    return o;
}

inline void writeStats() {
    Globals& g = G();
    if (!g.hashPath.empty()) {
        FILE* f = fopen(g.hashPath.c_str(), "wb");
        if (f) { for (uint64_t h : g.hashes) fwrite(&h, sizeof h, 1, f); fclose(f); }
    }
    if (g.statsPath.empty()) return;
    FILE* f = fopen(g.statsPath.c_str(), "w");
    if (!f) return;
    fprintf(f, "{\"target\":\"%s\",\"evaluations\":%ld,\"nontrivial\":%ld,\"distinct_nontrivial\":%zu,"
               "\"growth_cases\":%ld,\"erase_cases\":%ld,\"commands\":%ld,\"failing_cases\":%ld,\n\"ops\":{",
            g.target.c_str(), g.evaluations, g.nontrivial, g.hashes.size(), g.growthCases, g.eraseCases, g.cmdsTotal, g.failures);
    bool first = true;
    for (auto& kv : g.opCount) { fprintf(f, "%s\"%s\":%ld", first ? "" : ",", kv.first.c_str(), kv.second); first = false; }
    fprintf(f, "},\n\"excluded\":{");
    first = true;
    for (auto& kv : g.excluded) { fprintf(f, "%s\"%s\":%ld", first ? "" : ",", kv.first.c_str(), kv.second); first = false; }
    fprintf(f, "},\n\"samples\":[");
    first = true;
    for (auto& s : g.samples) { fprintf(f, "%s\"%s\"", first ? "" : ",\n", jsonEsc(s).c_str()); first = false; }
    fprintf(f, "]}\n");
    fclose(f);
}

// ---------------------------------------------------------------------------
// one test case: body() generates config + commands and runs them
// ---------------------------------------------------------------------------
template <class Body>
void runCase(Body&& body) {
    Globals& g = G();
    g.trace.clear(); g.curOp = "setup"; g.opSuffix.clear(); g.deferred.clear();
    g.growth = g.erased = g.onlyHit = false; g.ncmds = 0;
    Counted::resetTracking();
    if (g.traceFd >= 0) { int r = ftruncate(g.traceFd, 0); (void) r; lseek(g.traceFd, 0, SEEK_SET); }

    if (g.forkMode) {
        std::string errPath = g.failPath + ".childerr";
        fflush(stdout); fflush(stderr);
        pid_t pid = fork();
        if (pid == 0) {
            int fd = open(errPath.c_str(), O_WRONLY | O_CREAT | O_TRUNC, 0644);
            if (fd >= 0) { dup2(fd, 2); close(fd); }
            int code = 0;
            try { body(); }
            catch (const rc::detail::CaseResult& r) {
                if (r.type == rc::detail::CaseResult::Type::Failure) {
                    fprintf(stderr, "C20-MISMATCH %s\n", r.description.c_str());
                    code = 3;
                } else code = 4;   // discard
            }
            catch (const rc::GenerationFailure&) { code = 4; }
            catch (const std::exception& e) { fprintf(stderr, "C20-EXCEPTION %s\n", e.what()); code = 5; }
            catch (...) { fprintf(stderr, "C20-EXCEPTION unknown\n"); code = 5; }
            _exit(code);
        }
        int st = 0;
        waitpid(pid, &st, 0);
        std::string seq = readFile(std::getenv("C20_TRACE") ? std::getenv("C20_TRACE") : "", 100000);
        if (WIFEXITED(st) && WEXITSTATUS(st) == 0) return;
        if (WIFEXITED(st) && WEXITSTATUS(st) == 4) RC_DISCARD("child discarded");
        std::string err = readFile(errPath);
        std::string kind = (WIFEXITED(st) && WEXITSTATUS(st) == 3) ? "mismatch"
                         : (WIFEXITED(st) && WEXITSTATUS(st) == 5) ? "exception" : classify(err);
        // last op = last line of the trace
        std::string last = "setup";
        {
            size_t e = seq.size();
            while (e > 0 && seq[e - 1] == '\n') --e;
            size_t b = seq.rfind('\n', e ? e - 1 : 0);
            std::string line = seq.substr(b == std::string::npos ? 0 : b + 1, e - (b == std::string::npos ? 0 : b + 1));
            size_t p = line.find('(');
            if (p != std::string::npos) last = line.substr(0, p);
            if (line.compare(0, 1, "#") == 0) last = "setup";
        }
        std::string msg = kind == "mismatch" ? err.substr(0, 1500) : ("child terminated abnormally (" + kind + ")");
        writeFailRecord(kind, last, msg, seq, err);
        RC_FAIL(std::string("[") + g.target + ":" + last + ":" + kind + "] " + msg.substr(0, 400) + "\nsequence:\n" + seq);
    }

    try {
        body();
    } catch (const rc::detail::CaseResult& r) {
        if (r.type == rc::detail::CaseResult::Type::Failure) {
            writeFailRecord("mismatch", g.curOp, r.description, g.trace, "");
            // re-throw with the sequence text attached so that rapidcheck's report is self-contained
            throw rc::detail::CaseResult(rc::detail::CaseResult::Type::Failure,
                std::string("[") + g.target + ":" + g.curOp + ":mismatch] " + r.description + "\nsequence:\n" + g.trace);
        }
        throw;
    } catch (const rc::GenerationFailure&) {
        throw;
    } catch (const std::exception& e) {
        writeFailRecord("exception", g.curOp, e.what(), g.trace, "");
        throw;
    }

    if (!g.only.empty() && !g.onlyHit) RC_DISCARD("probe mode: pattern not present");

    // statistics (successful cases only)
    ++g.evaluations;
    g.cmdsTotal += g.ncmds;
    if (g.growth) ++g.growthCases;
    if (g.erased) ++g.eraseCases;
    if (g.growth && g.erased) {
        ++g.nontrivial;
        bool fresh = g.hashes.insert(fnv(g.trace)).second;
        if (fresh && g.samples.size() < 3 && g.ncmds <= 40 && g.ncmds >= 4) g.samples.push_back(g.trace);
    }
}

// generic driver for targets expressed as a traits class T
template <class T>
void stateCase() {
    // generation happens here (in fork mode: in the parent, so that rapidcheck can shrink)
    typename T::Config cfg = T::genConfig();
    typename T::Model m0 = T::initialModel(cfg);
    auto genFunc = [](const typename T::Model& m) {
        return rc::gen::map(T::genOp(m), [](Op o) {
            return std::shared_ptr<const rc::state::Command<typename T::Model, typename T::Sut>>(std::make_shared<Cmd<T>>(o));
        });
    };
    auto cmds = *rc::state::gen::commands(m0, genFunc);
    runCase([&] { T::execute(cfg, m0, cmds); });
}

inline std::set<std::string> splitList(const char* s) {
    std::set<std::string> out;
    if (!s) return out;
    std::string cur;
    for (const char* p = s;; ++p) {
        if (*p == ',' || *p == 0) { if (!cur.empty()) out.insert(cur); cur.clear(); if (!*p) break; }
        else cur += *p;
    }
    return out;
}

template <class Prop>
int mainFor(const char* target, Prop&& prop) {
    Globals& g = G();
    g.target = target;
    g.exclude = splitList(std::getenv("C20_EXCLUDE"));
    g.only = splitList(std::getenv("C20_ONLY"));
    g.forkMode = std::getenv("C20_FORK") && std::string(std::getenv("C20_FORK")) == "1";
    if (const char* p = std::getenv("C20_TRACE")) g.traceFd = open(p, O_WRONLY | O_CREAT | O_TRUNC, 0644);
    if (const char* p = std::getenv("C20_FAIL")) g.failPath = p;
    if (const char* p = std::getenv("C20_STATS")) g.statsPath = p;
    if (const char* p = std::getenv("C20_HASHES")) g.hashPath = p;
    if (g.forkMode && g.failPath.empty()) g.failPath = "/dev/null";

    xercesc::XMLPlatformUtils::Initialize();
    // full library initialisation: the containers do not need it, but the library's static destructors
    // (XPathFunctionTable) dereference a null MemoryManager when the library was never initialised.
    XalanInitialize();
    bool ok = rc::check(std::string("C20/") + target, prop);
    writeStats();
    printf("C20-RESULT target=%s ok=%d evaluations=%ld nontrivial=%ld distinct_nontrivial=%zu\n",
           target, ok ? 1 : 0, g.evaluations, g.nontrivial, g.hashes.size());
    fflush(stdout);
    // no XMLPlatformUtils::Terminate(): static Xalan strings may outlive it; leak checking is done by CountingMM
    return ok ? 0 : 1;
}

} // namespace c20
