#!/bin/bash
# Sensitivity of the C20 check: plants one small bug at a time in a SCRATCH COPY of the library sources (never in
# $VERIF_REPO), rebuilds only the affected rapidcheck target against the scratch headers, runs it with the same
# parameters as the quick tier (VERIF_SEED=1, shard 0) and reports whether / how fast the bug is caught.
# usage: rc/sensitivity.sh [mutant ...]      (default: all)     results: $VERIF_BUILD/asan/rc/mut/results.txt
set -u
cd "$(dirname "$0")/.."
REPO=${VERIF_REPO:-/repo}
BROOT=${VERIF_BUILD:-/verif/build}
M=$BROOT/asan/rc/mut
EXCL=vec_alias_insert,vec_alias_insert_count,vec_alias_resize,deque_resize_multi,deque_swap_blocksize,deque_copy_other_mgr,str_append_npos,str_substr_npos,str_resize_fill_grow,str_embedded_nul,str_compare_ptr_default_count,str_at_size,str_erase_range_on_empty,pool_get_zero_length
# a library .cpp compiled into the test defines the class statics a second time (exe + libxalan-c.so): expected here
export ASAN_OPTIONS=detect_odr_violation=0
bin/ensure-build asan || exit 2
mkdir -p "$M"
: > "$M/results.txt"

# name | file (relative to src/xalanc) | target binary | quick cases | python patch (old -> new)
run_mutant() {
  local name=$1 file=$2 bin=$3 cases=$4 old=$5 new=$6 extra=${7:-}
  rm -rf "$M/src" "$M/out"; mkdir -p "$M/src/xalanc/$(dirname "$file")" "$M/out"
  cp "$REPO/src/xalanc/$(dirname "$file")"/*.hpp "$M/src/xalanc/$(dirname "$file")/"
  cp "$REPO/src/xalanc/$file" "$M/src/xalanc/$file"
  OLD="$old" NEW="$new" python3 - "$M/src/xalanc/$file" <<'EOF' || { echo "$name: patch did not apply" | tee -a "$M/results.txt"; return; }
import os, sys
p = sys.argv[1]
s = open(p).read()
old, new = os.environ['OLD'], os.environ['NEW']
assert s.count(old) == 1, "pattern occurs %d times" % s.count(old)
open(p, 'w').write(s.replace(old, new))
EOF
  local mk=(make -s -C rc REPO="$REPO" BROOT="$BROOT" OUT="$M/out" HDR="$M/src")
  if [ -n "$extra" ]; then mk+=(MUTANT_SRC="$M/src/xalanc/$file"); fi
  "${mk[@]}" "$M/out/$bin" > "$M/out/make.log" 2>&1 || { echo "$name: build failed, see $M/out/make.log" | tee -a "$M/results.txt"; return; }
  local seed
  seed=$(python3 -c "import hashlib,struct,sys;print(struct.unpack('<Q',hashlib.sha256(('1:%s:0:'%sys.argv[1]).encode()).digest()[:8])[0]&0x7fffffffffffffff)" "$8")
  local t0 t1
  t0=$(date +%s.%N)
  RC_PARAMS="seed=$seed max_success=$cases max_size=100" C20_EXCLUDE=$EXCL C20_TRACE=$M/out/trace C20_FAIL=$M/out/fail \
    "$M/out/$bin" > "$M/out/log" 2>&1
  local rc=$?
  t1=$(date +%s.%N)
  local how="passed (NOT caught)"
  if grep -q Falsifiable "$M/out/log"; then how="caught by model comparison: $(grep -m1 Falsifiable "$M/out/log")";
  elif [ $rc -ne 0 ]; then
    how="caught by abort ($(grep -m1 -oE 'AddressSanitizer: [a-z-]+|Assertion .* failed|runtime error: .*' "$M/out/log" | cut -c1-120)); shrinking in fork mode"
    cp "$M/out/trace" "$M/out/trace.crash"
    C20_FORK=1 RC_PARAMS="seed=$seed max_success=$cases max_size=100" C20_EXCLUDE=$EXCL C20_TRACE=$M/out/trace C20_FAIL=$M/out/fail \
      "$M/out/$bin" > "$M/out/log.fork" 2>&1
  fi
  {
    echo "=== $name ($file, target $bin)"
    echo "mutation: [$old] -> [$new]"
    printf "result: %s; time to detect %.1fs (quick budget for this shard: %s cases)\n" "$how" "$(echo "$t1 - $t0" | bc)" "$cases"
    if [ -f "$M/out/fail" ]; then sed -n '/^signature=/p;/^--- sequence/,/^--- stderr/p' "$M/out/fail" | grep -v '^---'; fi
    echo
  } | tee -a "$M/results.txt"
}

want() { [ $# -eq 0 ] && return 0; local n=$1; shift; for x in "$@"; do [ "$x" = "$n" ] && return 0; done; return 1; }
ALL=("$@")
sel() { [ ${#ALL[@]} -eq 0 ] || want "$1" "${ALL[@]}"; }

sel map_rehash_drops_last_bucket && run_mutant map_rehash_drops_last_bucket Include/XalanMap.hpp t_map 13000 \
  'temp[index].push_back(entryPos);' 'if (index + 1 != theNewSize) temp[index].push_back(entryPos);' '' XalanMap
sel map_erase_keeps_entry_live && run_mutant map_erase_keeps_entry_live Include/XalanMap.hpp t_map 13000 \
  'toRemovePos.baseIterator->erased = true;' '/* mutant: erased flag not set */' '' XalanMap
sel vector_insert_shifts_one_too_few && run_mutant vector_insert_shifts_one_too_few Include/XalanVector.hpp t_vector_int 13000 \
  'std::copy_backward(thePosition, theOriginalEnd - theCount, theOriginalEnd);' 'std::copy_backward(thePosition + 1, theOriginalEnd - theCount, theOriginalEnd);' '' XalanVector_int
sel vector_pop_back_forgets_destroy && run_mutant vector_pop_back_forgets_destroy Include/XalanVector.hpp t_vector_counted 13000 \
  'destroy(m_data[m_size]);' '/* mutant: no destroy */' '' XalanVector_Counted
sel list_insert_returns_wrong_iterator && run_mutant list_insert_returns_wrong_iterator Include/XalanList.hpp t_list 13000 \
  'return iterator(constructNode(value,pos));' 'constructNode(value,pos); return pos;' '' XalanList
sel deque_pop_back_leaks_block && run_mutant deque_pop_back_leaks_block Include/XalanDeque.hpp t_deque 8000 \
  'm_freeBlockVector.push_back(&lastBlock);' '/* mutant: emptied block not kept */' '' XalanDeque
sel string_erase_eats_terminator && run_mutant string_erase_eats_terminator XalanDOM/XalanDOMString.cpp t_string 8000 \
  'm_data.erase(i, i + (theActualCount));' 'm_data.erase(i, i + theActualCount + ((theActualCount > 0 && i + theActualCount + 1 == m_data.end()) ? 1 : 0));' cpp XalanDOMString
sel string_insert_sub_ignores_offset && run_mutant string_insert_sub_ignores_offset XalanDOM/XalanDOMString.hpp t_string 8000 \
  'return insert(thePosition1, theString.c_str() + thePosition2, theCount);' 'return insert(thePosition1, theString.c_str(), theCount);' '' XalanDOMString
sel set_erase_reports_zero && run_mutant set_erase_reports_zero Include/XalanSet.hpp t_set 4000 \
  'return m_map.erase(value);' 'm_map.erase(value); return 0;' '' XalanSet
# deeper mutants: need a particular state (recycled entry, larger table, spare capacity, range splice) before they show
sel map_recycled_entry_stays_erased && run_mutant map_recycled_entry_stays_erased Include/XalanMap.hpp t_map 13000 \
  'newEntry.erased = false;' '/* mutant: recycled entry keeps its erased mark */' '' XalanMap
sel map_rehash_drops_last_bucket_of_big_table && run_mutant map_rehash_drops_last_bucket_of_big_table Include/XalanMap.hpp t_map 13000 \
  'temp[index].push_back(entryPos);' 'if (index + 1 != theNewSize || theNewSize < 12) temp[index].push_back(entryPos);' '' XalanMap
sel vector_assign_copies_one_too_few && run_mutant vector_assign_copies_one_too_few Include/XalanVector.hpp t_vector_int 13000 \
  'theRHSCopyEnd,
                    begin());' 'theRHSCopyEnd - ((theRHSCopyEnd - theRHS.begin()) > 2 ? 1 : 0),
                    begin());' '' XalanVector_int
sel list_splice_range_forgets_back_link && run_mutant list_splice_range_forgets_back_link Include/XalanList.hpp t_list 13000 \
  'toInsertLastNode.next->prev = toInsertFirstNode.prev;' '/* mutant: back link of the source list not repaired */' '' XalanList

[ -n "${C20_KEEP_MUTANT:-}" ] || rm -rf "$M/src" "$M/out"
echo "results in $M/results.txt"
