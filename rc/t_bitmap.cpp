// C20 target: XalanBitmap vs std::vector<bool>
// Two builds: t_bitmap_strict keeps the asserts of XalanBitmap.hpp live; t_bitmap compiles the inline members of
// XalanBitmap.hpp with NDEBUG (used only while the known finding "isSet asserts theBit >= m_size" is open, so that
// the rest of the class can still be compared with the model; bounds are then enforced by the generator and ASan).
#include "c20_common.hpp"
#include <xalanc/Include/XalanVector.hpp>
#if !defined(C20_BITMAP_STRICT)
#include <xalanc/PlatformSupport/PlatformSupportDefinitions.hpp>
#define NDEBUG
#include <cassert>      // re-evaluates the assert macro: off for the inline members of XalanBitmap.hpp only
#include <xalanc/PlatformSupport/XalanBitmap.hpp>
#undef NDEBUG
#include <cassert>
#else
#include <xalanc/PlatformSupport/XalanBitmap.hpp>
#endif

using namespace c20;
using xalanc::XalanBitmap;

struct BitT {
    struct Config { int size; };
    struct Model { std::vector<bool> b; };
    struct Sut {
        CountingMM mm1{"mm1"};
        XalanBitmap* b = nullptr;
        ~Sut() { delete b; }
    };
    enum { SET, CLEAR, TOGGLE, IS_SET, CLEAR_ALL, SET_MANY, NOPS };
    static const char* name(int c) {
        static const char* n[] = {"set", "clear", "toggle", "is_set", "clear_all", "set_many"};
        return n[c];
    }
    static Config genConfig() { Config c; c.size = *range(0, 3) ? *range(1, 41) : *range(1, 300); return c; }
    static Model initialModel(const Config& c) { Model m; m.b.assign(c.size, false); return m; }
    static rc::Gen<Op> genOp(const Model&) {
        static const std::vector<int> w = {6, 5, 5, 3, 1, 2};
        return genOpWeighted(w);
    }
    static bool valid(const Model&, const Op&) { return true; }
    static void apply(Model& m, const Op& o) {
        size_t n = m.b.size(), bit = o.b % n;
        switch (o.code) {
        case SET: m.b[bit] = true; break;
        case CLEAR: m.b[bit] = false; break;
        case TOGGLE: m.b[bit] = !m.b[bit]; break;
        case CLEAR_ALL: m.b.assign(n, false); break;
        case SET_MANY: for (int i = 0, k = 1 + o.d % 16; i < k; ++i) m.b[(bit + i * (1 + o.c % 5)) % n] = true; break;
        }
    }
    static void compare(const Model& m, Sut& s) {
        RC_ASSERT(s.b->getSize() == m.b.size());
        const XalanBitmap& cb = *s.b;
#if !defined(C20_BITMAP_STRICT)
        G().excluded["bitmap_isset_assert"] += (long) m.b.size();     // isSet calls made with its (inverted) assert compiled out
#endif
        for (size_t i = 0; i < m.b.size(); ++i) RC_ASSERT(cb.isSet(i) == bool(m.b[i]));
    }
    static void run(const Model& m0, Sut& s, const Op& o) {
        size_t n = m0.b.size(), bit = o.b % n;
        Model m1 = m0;
        apply(m1, o);
        for (size_t i = 0; i < n; ++i) {
            if (!m0.b[i] && m1.b[i]) markGrowth();      // a bit went 0 -> 1
            if (m0.b[i] && !m1.b[i]) markErase();       // a bit went 1 -> 0
        }
        switch (o.code) {
        case SET: op("set", "%zu", bit); s.b->set(bit); break;
        case CLEAR: op("clear", "%zu", bit); s.b->clear(bit); break;
        case TOGGLE: op("toggle", "%zu", bit); s.b->toggle(bit); break;
        case IS_SET: op("is_set", "%zu", bit); RC_ASSERT(s.b->isSet(bit) == bool(m0.b[bit])); break;
        case CLEAR_ALL: op("clear_all", ""); s.b->clearAll(); break;
        case SET_MANY: {
            int k = 1 + o.d % 16, step = 1 + o.c % 5;
            op("set_many", "from=%zu,n=%d,step=%d", bit, k, step);
            for (int i = 0; i < k; ++i) s.b->set((bit + i * step) % n);
            break;
        }
        }
        compare(m1, s);
    }
    template <class Cmds>
    static void execute(const Config& c, const Model& m0, const Cmds& cmds) {
        header("# XalanBitmap size=%d", c.size);
        Sut s;
        s.b = new XalanBitmap(s.mm1, c.size);
        noteOnly("bitmap_isset_assert");
        op("is_set", "0");
        RC_ASSERT(s.b->isSet(0) == false);
        compare(m0, s);
        rc::state::runAll(cmds, m0, s);
        G().curOp = "destroy";
        delete s.b; s.b = nullptr;
        checkDeferred();
        RC_ASSERT(s.mm1.outstanding() == 0u);
        RC_ASSERT(s.mm1.foreign == 0u);
    }
};

int main() { return mainFor("XalanBitmap", [] { stateCase<BitT>(); }); }
