// C20 target: XalanObjectCache (default build: no busy list) vs a LIFO free-list model
#include "c20_common.hpp"
#include <xalanc/Include/STLHelper.hpp>
#include <xalanc/Include/XalanObjectCache.hpp>

using namespace c20;

struct Obj {
    Counted tracker;      // instance tracking (construct / destroy balance)
    int payload = 0;
    int clears = 0;
    void clear() { payload = 0; ++clears; }
};
typedef xalanc::XalanObjectCache<Obj, xalanc::DefaultCacheCreateFunctor<Obj>, xalanc::DeleteFunctor<Obj>, xalanc::ClearCacheResetFunctor<Obj> > Cache;

struct CacheT {
    struct Config { int initial; };
    struct Model { int held = 0, avail = 0; };
    struct Sut {
        CountingMM mm1{"mm1"};
        Cache* c = nullptr;
        std::vector<Obj*> held, avail;
        ~Sut() {
            // objects still held belong to the test
            if (c) for (Obj* p : held) xalanc::XalanDestroy(mm1, *p);
            delete c;
        }
    };
    enum { GET, RELEASE, RESET, GUARD, GET_MANY, RELEASE_ALL, NOPS };
    static const char* name(int c) {
        static const char* n[] = {"get", "release", "reset", "guard", "get_many", "release_all"};
        return n[c];
    }
    static Config genConfig() { Config c; c.initial = *range(0, 5); return c; }
    static Model initialModel(const Config&) { return Model(); }
    static rc::Gen<Op> genOp(const Model&) {
        static const std::vector<int> w = {8, 7, 1, 2, 2, 1};
        return genOpWeighted(w);
    }
    static bool valid(const Model& m, const Op& o) { return o.code != RELEASE || m.held > 0; }
    static void apply(Model& m, const Op& o) {
        switch (o.code) {
        case GET: ++m.held; if (m.avail) --m.avail; break;
        case RELEASE: --m.held; ++m.avail; break;
        case GUARD: if (!m.avail) ++m.avail; break;
        case GET_MANY: for (int i = 0, n = 1 + o.d % 6; i < n; ++i) { ++m.held; if (m.avail) --m.avail; } break;
        case RELEASE_ALL: m.avail += m.held; m.held = 0; break;
        }
    }
    static Obj* doGet(Sut& s, int payload) {
        Obj* p = s.c->get();
        RC_ASSERT(p != nullptr);
        RC_ASSERT(std::find(s.held.begin(), s.held.end(), p) == s.held.end());   // never hands out an object twice
        if (!s.avail.empty()) {
            RC_ASSERT(p == s.avail.back());            // "always return the back of the free list"
            RC_ASSERT(p->payload == 0);                // reset functor ran on release
            s.avail.pop_back();
        } else {
            RC_ASSERT(std::find(s.avail.begin(), s.avail.end(), p) == s.avail.end());
            RC_ASSERT(p->payload == 0 && p->clears == 0);   // freshly created
            if (!s.held.empty()) { markGrowth(); ++G().opCount["~object_created"]; }
        }
        p->payload = payload;
        s.held.push_back(p);
        return p;
    }
    static void doRelease(Sut& s, size_t i) {
        Obj* p = s.held[i];
        int clears = p->clears;
        RC_ASSERT(s.c->release(p) == true);
        RC_ASSERT(p->payload == 0 && p->clears == clears + 1);
        s.held.erase(s.held.begin() + i);
        s.avail.push_back(p);
        markErase();
    }
    static void compare(const Model& m, Sut& s) {
        RC_ASSERT(s.held.size() == size_t(m.held));
        RC_ASSERT(s.avail.size() == size_t(m.avail));
        RC_ASSERT(Counted::live() == long(m.held + m.avail));
        for (size_t i = 0; i < s.held.size(); ++i) RC_ASSERT(s.held[i]->payload >= 1);   // payload written by the holder is untouched
    }
    static void run(const Model& m0, Sut& s, const Op& o) {
        Model m1 = m0;
        apply(m1, o);
        switch (o.code) {
        case GET: op("get", ""); doGet(s, 1 + o.c % 100); break;
        case RELEASE: { size_t i = o.b % s.held.size(); op("release", "held[%zu]", i); doRelease(s, i); break; }
        case RESET: op("reset", ""); s.c->reset(); break;
        case GUARD: {
            op("guard", "");
            Obj* expect = s.avail.empty() ? nullptr : s.avail.back();
            {
                xalanc::GuardCachedObject<Cache> g(*s.c);
                RC_ASSERT(g.get() != nullptr);
                if (expect) RC_ASSERT(g.get() == expect);
                if (expect) s.avail.pop_back();
                g.get()->payload = 5;
                expect = g.get();
            }
            RC_ASSERT(expect->payload == 0);
            s.avail.push_back(expect);
            break;
        }
        case GET_MANY: { int n = 1 + o.d % 6; op("get_many", "%d", n); for (int i = 0; i < n; ++i) doGet(s, 1 + (o.c + i) % 100); break; }
        case RELEASE_ALL: op("release_all", ""); while (!s.held.empty()) doRelease(s, s.held.size() - 1); break;
        }
        compare(m1, s);
    }
    template <class Cmds>
    static void execute(const Config& c, const Model& m0, const Cmds& cmds) {
        header("# XalanObjectCache<Obj,...,ClearCacheResetFunctor> initialListSize=%d", c.initial);
        Sut s;
        s.c = new Cache(s.mm1, c.initial);
        compare(m0, s);
        rc::state::runAll(cmds, m0, s);
        G().curOp = "destroy";
        for (Obj* p : s.held) xalanc::XalanDestroy(s.mm1, *p);
        s.held.clear();
        delete s.c; s.c = nullptr;      // destroys the available objects
        checkDeferred();
        RC_ASSERT(Counted::live() == 0);
        RC_ASSERT(s.mm1.outstanding() == 0u);
        RC_ASSERT(s.mm1.foreign == 0u);
    }
};

int main() { return mainFor("XalanObjectCache", [] { stateCase<CacheT>(); }); }
