// C20 target: XalanDeque<Counted> vs std::deque<int>
#include "c20_common.hpp"
#include <xalanc/Include/XalanDeque.hpp>
#include <deque>

using namespace c20;
typedef xalanc::XalanDeque<Counted> Deq;

struct DequeT {
    struct Config { int bs[2], init[2]; };
    // bs = block size of the object (const member, stays with the object), mgr = manager the object currently uses
    struct Model { std::deque<int> d[2]; int bs[2]; int mgr[2]; };
    struct Sut {
        CountingMM mm1{"mm1"}, mm2{"mm2"};
        Deq* d[2] = {nullptr, nullptr};
        ~Sut() { delete d[0]; delete d[1]; }
        CountingMM& mm(int i) { return i ? mm2 : mm1; }
    };
    enum { PUSH_BACK, POP_BACK, SET_INDEX, SET_BACK, RESIZE, CLEAR, SWAP, SELF_SWAP, COPY, OP_ASSIGN, SELF_ASSIGN,
           PUSH_MANY, POP_MANY, SET_VIA_IT, NOP, NOPS };
    static const char* name(int c) {
        static const char* n[] = {"push_back", "pop_back", "set_index", "set_back", "resize", "clear", "swap", "self_swap",
                                  "copy", "op_assign", "self_assign", "push_many", "pop_many", "set_via_it", "nop"};
        return n[c];
    }
    static Config genConfig() {
        Config c;
        c.bs[0] = *range(1, 5);
        c.bs[1] = *range(0, 2) ? c.bs[0] : *range(1, 5);
        c.init[0] = *range(0, 6); c.init[1] = *range(0, 6);
        return c;
    }
    static Model initialModel(const Config& c) {
        Model m;
        for (int w = 0; w < 2; ++w) { m.bs[w] = c.bs[w]; m.mgr[w] = w; m.d[w].assign(c.init[w], 0); }
        return m;
    }
    static size_t resizeTarget(const Model& m, const Op& o) {
        size_t sz = m.d[o.a & 1].size();
        if (patternEnabled("deque_resize_multi")) return o.b % 13;
        int delta = int(o.b % 3) - 1;                       // -1, 0, +1 only
        return (sz == 0 && delta < 0) ? 0 : sz + delta;
    }
    static int copyMgr(const Model& m, const Op& o) {
        int w = o.a & 1;
        return patternEnabled("deque_copy_other_mgr") ? (o.c & 1) : m.mgr[w];
    }
    static rc::Gen<Op> genOp(const Model& m) {
        static const std::vector<int> w = {10, 6, 3, 2, 4, 1, 2, 1, 2, 2, 1, 3, 3, 2, 0};
        Model mc = m;
        return rc::gen::map(genOpWeighted(w), [mc](Op o) {
            int w = o.a & 1;
            if (o.code == RESIZE && !patternEnabled("deque_resize_multi")) {
                long d = long(o.b % 13) - long(mc.d[w].size());
                if (d >= 2 || d <= -2) countExcluded("deque_resize_multi");
            }
            if (o.code == SWAP && mc.bs[0] != mc.bs[1] && !patternEnabled("deque_swap_blocksize")) {
                countExcluded("deque_swap_blocksize"); o.code = NOP;
            }
            if (o.code == COPY && !patternEnabled("deque_copy_other_mgr") && (o.c & 1) != mc.mgr[w]) countExcluded("deque_copy_other_mgr");
            return o;
        });
    }
    static bool valid(const Model& m, const Op& o) {
        const auto& x = m.d[o.a & 1];
        switch (o.code) {
        case POP_BACK: case SET_INDEX: case SET_BACK: case SET_VIA_IT: case POP_MANY: return !x.empty();
        case SWAP: return m.bs[0] == m.bs[1] || patternEnabled("deque_swap_blocksize");
        }
        return true;
    }
    static void apply(Model& m, const Op& o) {
        int w = o.a & 1, v = o.c % 100;
        auto& x = m.d[w];
        switch (o.code) {
        case PUSH_BACK: x.push_back(v); break;
        case POP_BACK: x.pop_back(); break;
        case SET_INDEX: case SET_VIA_IT: x[o.b % x.size()] = v; break;
        case SET_BACK: x.back() = v; break;
        case RESIZE: x.resize(resizeTarget(m, o)); break;
        case CLEAR: x.clear(); break;
        case SWAP: m.d[0].swap(m.d[1]); std::swap(m.mgr[0], m.mgr[1]); break;   // block size is a const member: not swapped
        case SELF_SWAP: case SELF_ASSIGN: case NOP: break;
        case COPY: { int mg = copyMgr(m, o); m.d[1 - w] = x; m.bs[1 - w] = m.bs[w]; m.mgr[1 - w] = mg; break; }
        case OP_ASSIGN: m.d[1 - w] = x; break;
        case PUSH_MANY: for (int k = 0, n = 1 + o.d % 9; k < n; ++k) x.push_back((v + k) % 100); break;
        case POP_MANY: for (int k = 0, n = 1 + o.d % 9; k < n && !x.empty(); ++k) x.pop_back(); break;
        }
    }

    static void compare(const Model& m, Sut& s) {
        long total = 0;
        for (int w = 0; w < 2; ++w) {
            Deq& x = *s.d[w];
            const Deq& cx = x;
            const auto& ref = m.d[w];
            RC_ASSERT(cx.size() == ref.size());
            RC_ASSERT(cx.empty() == ref.empty());
            for (size_t i = 0; i < ref.size(); ++i) { RC_ASSERT(x[i].v == ref[i]); RC_ASSERT(cx[i].v == ref[i]); }
            size_t i = 0;
            for (Deq::iterator it = x.begin(); it != x.end(); ++it, ++i) { RC_ASSERT(i < ref.size()); RC_ASSERT((*it).v == ref[i]); }
            RC_ASSERT(i == ref.size());
            i = 0;
            for (Deq::const_iterator it = cx.begin(); it != cx.end(); it++, ++i) { RC_ASSERT(i < ref.size()); RC_ASSERT((*it).v == ref[i]); }
            RC_ASSERT(i == ref.size());
            i = ref.size();
            for (Deq::const_reverse_iterator it = cx.rbegin(); it != cx.rend(); ++it) { RC_ASSERT(i > 0u); --i; RC_ASSERT((*it).v == ref[i]); }
            RC_ASSERT(i == 0u);
            RC_ASSERT(size_t(x.end() - x.begin()) == ref.size());
            if (!ref.empty()) {
                RC_ASSERT(x.back().v == ref.back());
                size_t k = ref.size() / 2;
                RC_ASSERT((*(x.begin() + k)).v == ref[k]);
                RC_ASSERT((*(x.end() - (ref.size() - k))).v == ref[k]);
                RC_ASSERT(x.begin() < x.end());
                Deq::iterator e = x.end(); --e;
                RC_ASSERT((*e).v == ref.back());
            }
            RC_ASSERT(&x.getMemoryManager() == (xercesc::MemoryManager*) &s.mm(m.mgr[w]));
            total += (long) ref.size();
        }
        RC_ASSERT(Counted::live() == total);
    }

    static void run(const Model& m0, Sut& s, const Op& o) {
        int w = o.a & 1, v = o.c % 100;
        Deq& x = *s.d[w];
        const auto& ref = m0.d[w];
        size_t allocs0 = s.mm1.allocs + s.mm2.allocs;
        Model m1 = m0;
        apply(m1, o);
        bool pushLike = false;
        if (m1.d[w].size() < ref.size() && o.code != SWAP) markErase();
        switch (o.code) {
        case PUSH_BACK: op("push_back", "d%d,%d", w, v); x.push_back(Counted(v)); pushLike = true; break;
        case POP_BACK: op("pop_back", "d%d", w); x.pop_back(); break;
        case SET_INDEX: op("set_index", "d%d,[%zu]=%d", w, o.b % ref.size(), v); x[o.b % ref.size()] = Counted(v); break;
        case SET_VIA_IT: op("set_via_it", "d%d,*(begin+%zu)=%d", w, o.b % ref.size(), v); *(x.begin() + o.b % ref.size()) = Counted(v); break;
        case SET_BACK: op("set_back", "d%d,%d", w, v); x.back() = Counted(v); break;
        case RESIZE: {
            size_t n = resizeTarget(m0, o);
            long d = long(n) - long(ref.size());
            if (d >= 2 || d <= -2) noteOnly("deque_resize_multi");
            op((d >= 2 || d <= -2) ? "resize_multi" : "resize", "d%d,%zu (size was %zu)", w, n, ref.size());
            x.resize(n);
            pushLike = true;
            break;
        }
        case CLEAR: op("clear", "d%d", w); x.clear(); break;
        case SWAP:
            if (m0.bs[0] != m0.bs[1]) noteOnly("deque_swap_blocksize");
            op(m0.bs[0] != m0.bs[1] ? "swap_blocksize" : "swap", "d0(blockSize=%d),d1(blockSize=%d)", m0.bs[0], m0.bs[1]);
            s.d[0]->swap(*s.d[1]);
            break;
        case SELF_SWAP: op("self_swap", "d%d", w); x.swap(x); break;
        case COPY: {
            int mg = copyMgr(m0, o);
            if (mg != m0.mgr[w]) noteOnly("deque_copy_other_mgr");
            op(mg != m0.mgr[w] ? "copy_other_mgr" : "copy", "d%d<-copy(d%d on mm%d, target mm%d)", 1 - w, w, m0.mgr[w] + 1, mg + 1);
            CountingMM& srcMM = s.mm(m0.mgr[w]);
            size_t srcAllocs = srcMM.allocs;
            std::unique_ptr<Deq> fresh(new Deq(x, s.mm(mg)));
            // a container constructed on manager M must take its memory from M, not from the source's manager
            if (mg != m0.mgr[w]) RC_ASSERT(srcMM.allocs == srcAllocs);
            delete s.d[1 - w]; s.d[1 - w] = fresh.release();
            break;
        }
        case OP_ASSIGN: op("op_assign", "d%d=d%d", 1 - w, w); *s.d[1 - w] = x; break;
        case SELF_ASSIGN: op("self_assign", "d%d", w); x = x; break;
        case PUSH_MANY: {
            int n = 1 + o.d % 9;
            op("push_many", "d%d,n=%d,from=%d", w, n, v);
            for (int k = 0; k < n; ++k) x.push_back(Counted((v + k) % 100));
            pushLike = true;
            break;
        }
        case POP_MANY: {
            int n = 1 + o.d % 9;
            op("pop_many", "d%d,n=%d", w, n);
            size_t sz = ref.size();
            for (int k = 0; k < n && sz > 0; ++k, --sz) x.pop_back();
            break;
        }
        case NOP: op("nop", ""); break;
        }
        if (pushLike && m1.d[w].size() > ref.size()) {
            size_t allocs1 = s.mm1.allocs + s.mm2.allocs;
            size_t bs = m0.bs[w];
            size_t blocks0 = (ref.size() + bs - 1) / bs, blocks1 = (m1.d[w].size() + bs - 1) / bs;
            if (allocs1 > allocs0 && ref.size() > 0) { markGrowth(); ++G().opCount["~block_or_index_alloc"]; }
            if (blocks1 > blocks0 && allocs1 == allocs0) ++G().opCount["~block_reuse"];
        }
        compare(m1, s);
    }

    template <class Cmds>
    static void execute(const Config& c, const Model& m0, const Cmds& cmds) {
        header("# XalanDeque<Counted> blockSize=%d,%d initialSize=%d,%d", c.bs[0], c.bs[1], c.init[0], c.init[1]);
        Sut s;
        s.d[0] = new Deq(s.mm1, c.init[0], c.bs[0]);
        s.d[1] = new Deq(s.mm2, c.init[1], c.bs[1]);
        compare(m0, s);
        rc::state::runAll(cmds, m0, s);
        G().curOp = "destroy";
        delete s.d[0]; s.d[0] = nullptr;
        delete s.d[1]; s.d[1] = nullptr;
        checkDeferred();
        RC_ASSERT(Counted::live() == 0);
        RC_ASSERT(s.mm1.outstanding() == 0u);
        RC_ASSERT(s.mm2.outstanding() == 0u);
        RC_ASSERT(s.mm1.foreign + s.mm2.foreign == 0u);
    }
};

int main() { return mainFor("XalanDeque", [] { stateCase<DequeT>(); }); }
