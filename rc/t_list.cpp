// C20 target: XalanList<Counted> vs std::list<int>
#include "c20_common.hpp"
#include <xalanc/Include/XalanList.hpp>
#include <list>

using namespace c20;
typedef xalanc::XalanList<Counted> List;

struct ListT {
    struct Config { int sameMgr; };
    struct Model { std::list<int> l[2]; int mgr[2]; };
    struct Sut {
        CountingMM mm1{"mm1"}, mm2{"mm2"};
        List* l[2] = {nullptr, nullptr};
        ~Sut() { delete l[0]; delete l[1]; }
    };
    enum { PUSH_BACK, PUSH_FRONT, POP_BACK, POP_FRONT, INSERT, ERASE, SPLICE_ONE, SPLICE_RANGE, CLEAR, SWAP, SELF_SWAP,
           SET_VIA_IT, SET_FRONT, SET_BACK, PUSH_MANY, ERASE_MANY, NOPS };
    static const char* name(int c) {
        static const char* n[] = {"push_back", "push_front", "pop_back", "pop_front", "insert", "erase", "splice_one",
                                  "splice_range", "clear", "swap", "self_swap", "set_via_it", "set_front", "set_back",
                                  "push_many", "erase_many"};
        return n[c];
    }
    static Config genConfig() { Config c; c.sameMgr = *range(0, 3) != 0; return c; }
    static Model initialModel(const Config& c) { Model m; m.mgr[0] = 0; m.mgr[1] = c.sameMgr ? 0 : 1; return m; }
    static rc::Gen<Op> genOp(const Model&) {
        static const std::vector<int> w = {6, 5, 4, 4, 7, 7, 5, 5, 1, 2, 1, 2, 1, 1, 2, 2};
        return genOpWeighted(w);
    }
    // source list of a splice: the other list only when both use the same memory manager (asserted precondition)
    static int spliceSrc(const Model& m, const Op& o) {
        int w = o.a & 1;
        int src = (o.a >> 1) & 1 ? 1 - w : w;
        if (m.mgr[0] != m.mgr[1]) src = w;
        return src;
    }
    static bool valid(const Model& m, const Op& o) {
        int w = o.a & 1;
        const auto& x = m.l[w];
        switch (o.code) {
        case POP_BACK: case POP_FRONT: case ERASE: case SET_VIA_IT: case SET_FRONT: case SET_BACK: case ERASE_MANY:
            return !x.empty();
        case SPLICE_ONE: return !m.l[spliceSrc(m, o)].empty();
        }
        return true;
    }
    // resolved arguments of splice_range: source range [i,j) and destination position pos (not inside (i,j) if same list)
    static void rangeArgs(const Model& m, const Op& o, int& src, size_t& i, size_t& j, size_t& pos) {
        int w = o.a & 1;
        src = spliceSrc(m, o);
        size_t n = m.l[src].size();
        i = o.c % (n + 1); j = i + o.d % (n - i + 1);
        pos = o.b % (m.l[w].size() + 1);
        if (src == w && pos >= i && pos < j) pos = j;    // std precondition: pos not in [first,last)
    }
    template <class L> static typename L::iterator at(L& l, size_t p) { auto it = l.begin(); while (p--) ++it; return it; }

    static void apply(Model& m, const Op& o) {
        int w = o.a & 1, v = o.c % 100;
        auto& x = m.l[w];
        switch (o.code) {
        case PUSH_BACK: x.push_back(v); break;
        case PUSH_FRONT: x.push_front(v); break;
        case POP_BACK: x.pop_back(); break;
        case POP_FRONT: x.pop_front(); break;
        case INSERT: x.insert(at(x, o.b % (x.size() + 1)), v); break;
        case ERASE: x.erase(at(x, o.b % x.size())); break;
        case SPLICE_ONE: {
            int src = spliceSrc(m, o);
            auto& y = m.l[src];
            size_t i = o.c % y.size();
            size_t pos = o.b % (x.size() + 1);
            x.splice(at(x, pos), y, at(y, i));
            break;
        }
        case SPLICE_RANGE: {
            int src; size_t i, j, pos; rangeArgs(m, o, src, i, j, pos);
            auto& y = m.l[src];
            auto p = at(x, pos); auto f = at(y, i); auto l = at(y, j);
            x.splice(p, y, f, l);
            break;
        }
        case CLEAR: x.clear(); break;
        case SWAP: m.l[0].swap(m.l[1]); std::swap(m.mgr[0], m.mgr[1]); break;
        case SELF_SWAP: break;
        case SET_VIA_IT: *at(x, o.b % x.size()) = v; break;
        case SET_FRONT: x.front() = v; break;
        case SET_BACK: x.back() = v; break;
        case PUSH_MANY: for (int k = 0, n = 1 + o.d % 8; k < n; ++k) x.push_back((v + k) % 100); break;
        case ERASE_MANY: for (int k = 0, n = 1 + o.d % 8; k < n && !x.empty(); ++k) x.erase(at(x, (o.b + k) % x.size())); break;
        }
    }

    static void compare(const Model& m, Sut& s) {
        long total = 0;
        for (int w = 0; w < 2; ++w) {
            List& x = *s.l[w];
            const List& cx = x;
            const auto& ref = m.l[w];
            RC_ASSERT(cx.size() == ref.size());
            RC_ASSERT(cx.empty() == ref.empty());
            auto r = ref.begin();
            size_t steps = 0;
            for (List::const_iterator it = cx.begin(); it != cx.end(); ++it, ++r) {
                RC_ASSERT(++steps <= ref.size());
                RC_ASSERT(it->v == *r);
            }
            RC_ASSERT(steps == ref.size());
            auto rr = ref.rbegin();
            steps = 0;
            for (List::reverse_iterator it = x.rbegin(); it != x.rend(); ++it, ++rr) {
                RC_ASSERT(++steps <= ref.size());
                RC_ASSERT((*it).v == *rr);
            }
            RC_ASSERT(steps == ref.size());
            steps = 0;
            rr = ref.rbegin();
            for (List::const_reverse_iterator it = cx.rbegin(); it != cx.rend(); ++it, ++rr) { RC_ASSERT(++steps <= ref.size()); RC_ASSERT((*it).v == *rr); }
            if (!ref.empty()) {
                RC_ASSERT(x.front().v == ref.front());
                RC_ASSERT(x.back().v == ref.back());
                // operator-(n) from end()
                size_t k = ref.size();
                List::iterator b = x.end() - (ptrdiff_t) k;
                RC_ASSERT(b == x.begin());
            }
            RC_ASSERT(&x.getMemoryManager() == (m.mgr[w] ? (xercesc::MemoryManager*) &s.mm2 : (xercesc::MemoryManager*) &s.mm1));
            total += (long) ref.size();
        }
        RC_ASSERT(Counted::live() == total);
    }

    static void run(const Model& m0, Sut& s, const Op& o) {
        int w = o.a & 1, v = o.c % 100;
        List& x = *s.l[w];
        const auto& ref = m0.l[w];
        size_t allocs0 = s.mm1.allocs + s.mm2.allocs;
        size_t total0 = m0.l[0].size() + m0.l[1].size();
        Model m1 = m0;
        apply(m1, o);
        bool insertLike = false;
        switch (o.code) {
        case PUSH_BACK: op("push_back", "l%d,%d", w, v); x.push_back(Counted(v)); insertLike = true; break;
        case PUSH_FRONT: op("push_front", "l%d,%d", w, v); x.push_front(Counted(v)); insertLike = true; break;
        case POP_BACK: op("pop_back", "l%d", w); x.pop_back(); markErase(); break;
        case POP_FRONT: op("pop_front", "l%d", w); x.pop_front(); markErase(); break;
        case INSERT: {
            size_t pos = o.b % (ref.size() + 1);
            op("insert", "l%d,pos=%zu,%d", w, pos, v);
            List::iterator it = x.insert(at(x, pos), Counted(v));
            RC_ASSERT(it->v == v);
            RC_ASSERT(it == at(x, pos));          // the returned iterator designates the new element, at position pos
            insertLike = true;
            break;
        }
        case ERASE: {
            size_t pos = o.b % ref.size();
            op("erase", "l%d,pos=%zu", w, pos);
            x.erase(at(x, pos));
            markErase();
            break;
        }
        case SPLICE_ONE: {
            int src = spliceSrc(m0, o);
            List& y = *s.l[src];
            size_t i = o.c % m0.l[src].size();
            size_t pos = o.b % (ref.size() + 1);
            op("splice_one", "l%d,pos=%zu,l%d,elem=%zu", w, pos, src, i);
            x.splice(at(x, pos), y, at(y, i));
            break;
        }
        case SPLICE_RANGE: {
            int src; size_t i, j, pos; rangeArgs(m0, o, src, i, j, pos);
            List& y = *s.l[src];
            op("splice_range", "l%d,pos=%zu,l%d,[%zu,%zu)", w, pos, src, i, j);
            List::iterator p = at(x, pos), f = at(y, i), l = at(y, j);
            x.splice(p, y, f, l);
            break;
        }
        case CLEAR: op("clear", "l%d", w); if (!ref.empty()) markErase(); x.clear(); break;
        case SWAP: op("swap", "l0,l1"); s.l[0]->swap(*s.l[1]); break;
        case SELF_SWAP: op("self_swap", "l%d", w); x.swap(x); break;
        case SET_VIA_IT: { size_t p = o.b % ref.size(); op("set_via_it", "l%d,pos=%zu,%d", w, p, v); *at(x, p) = Counted(v); break; }
        case SET_FRONT: op("set_front", "l%d,%d", w, v); x.front() = Counted(v); break;
        case SET_BACK: op("set_back", "l%d,%d", w, v); x.back() = Counted(v); break;
        case PUSH_MANY: {
            int n = 1 + o.d % 8;
            op("push_many", "l%d,n=%d,from=%d", w, n, v);
            for (int k = 0; k < n; ++k) x.push_back(Counted((v + k) % 100));
            insertLike = true;
            break;
        }
        case ERASE_MANY: {
            int n = 1 + o.d % 8;
            op("erase_many", "l%d,n=%d,start=%d", w, n, o.b);
            size_t sz = ref.size();
            for (int k = 0; k < n && sz > 0; ++k, --sz) x.erase(at(x, (o.b + k) % sz));
            markErase();
            break;
        }
        }
        if (insertLike) {
            size_t allocs1 = s.mm1.allocs + s.mm2.allocs;
            size_t added = m1.l[0].size() + m1.l[1].size() - total0;
            if (allocs1 > allocs0 && total0 > 0) { markGrowth(); ++G().opCount["~node_alloc"]; }
            if (allocs1 - allocs0 < added) ++G().opCount["~node_reuse"];
        }
        compare(m1, s);
    }

    template <class Cmds>
    static void execute(const Config& c, const Model& m0, const Cmds& cmds) {
        header("# XalanList<Counted> l0 on mm1, l1 on %s", c.sameMgr ? "mm1" : "mm2");
        Sut s;
        s.l[0] = new List(s.mm1);
        s.l[1] = c.sameMgr ? new List(s.mm1) : new List(s.mm2);
        compare(m0, s);
        rc::state::runAll(cmds, m0, s);
        G().curOp = "destroy";
        delete s.l[0]; s.l[0] = nullptr;
        delete s.l[1]; s.l[1] = nullptr;
        checkDeferred();
        RC_ASSERT(Counted::live() == 0);
        RC_ASSERT(s.mm1.outstanding() == 0u);
        RC_ASSERT(s.mm2.outstanding() == 0u);
        RC_ASSERT(s.mm1.foreign + s.mm2.foreign == 0u);
    }
};

int main() { return mainFor("XalanList", [] { stateCase<ListT>(); }); }
