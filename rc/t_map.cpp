// C20 target: XalanMap<int, Counted, colliding hasher> vs std::map<int,int> (compared as sets of pairs)
#include "c20_common.hpp"
#include <xalanc/Include/XalanMap.hpp>

using namespace c20;

static int g_hashMode = 0;
struct HTraits {
    struct Hasher {
        size_t operator()(int k) const {
            switch (g_hashMode) {
            case 0: return size_t(unsigned(k) % 3u);          // heavy collisions
            case 1: return 0;                                  // everything collides
            case 2: return size_t(k);                          // identity
            default: return size_t(unsigned(k) * 2654435761u); // spread
            }
        }
    };
    typedef std::equal_to<int> Comparator;
};
typedef xalanc::XalanMap<int, Counted, HTraits> BaseMap;
struct PMap : BaseMap {   // exposes protected state for classification only
    PMap(xercesc::MemoryManager& mm, double lf, size_t minB, size_t thr) : BaseMap(mm, lf, minB, thr) {}
    PMap(const BaseMap& o, xercesc::MemoryManager& mm) : BaseMap(o, mm) {}
    size_t buckets() const { return m_buckets.size(); }
    size_t eraseCount() const { return m_eraseCount; }
    bool hasFree() const { return !m_freeEntries.empty(); }
};

static const double kLoad[] = {0.5, 0.75, 1.0, 1.5, 3.0};

struct MapT {
    struct Config { int hash, lf, minB[2], thr[2], K; };
    struct Model { std::map<int, int> m[2]; int K; };
    struct Sut {
        CountingMM mm1{"mm1"}, mm2{"mm2"};
        PMap* m[2] = {nullptr, nullptr};
        ~Sut() { delete m[0]; delete m[1]; }
        CountingMM& mm(int i) { return i ? mm2 : mm1; }
    };
    enum { INSERT, INSERT_PAIR, INDEX_SET, INDEX_GET, FIND, ERASE_KEY, ERASE_FOUND_IT, ERASE_NTH_IT, CLEAR,
           COPY, ASSIGN, SELF_ASSIGN, SWAP, SELF_SWAP, SET_VIA_IT, BULK_INSERT, BULK_ERASE, NOPS };
    static const char* name(int c) {
        static const char* n[] = {"insert", "insert_pair", "index_set", "index_get", "find", "erase_key", "erase_found_it",
                                  "erase_nth_it", "clear", "copy", "assign", "self_assign", "swap", "self_swap", "set_via_it",
                                  "bulk_insert", "bulk_erase"};
        return n[c];
    }
    static Config genConfig() {
        Config c;
        c.hash = *range(0, 4); c.lf = *range(0, 5);
        c.minB[0] = *range(1, 9); c.minB[1] = *range(1, 9);
        c.thr[0] = *range(1, 6); c.thr[1] = *range(1, 6);
        c.K = *range(3, 13);
        return c;
    }
    static Model initialModel(const Config& c) { Model m; m.K = c.K; return m; }
    static rc::Gen<Op> genOp(const Model&) {
        static const std::vector<int> w = {8, 3, 5, 2, 3, 6, 3, 3, 1, 1, 1, 1, 1, 1, 2, 2, 1};
        return genOpWeighted(w);
    }
    static bool valid(const Model& m, const Op& o) {
        int w = o.a & 1;
        if (o.code == ERASE_NTH_IT || o.code == SET_VIA_IT) return !m.m[w].empty();
        return true;
    }
    static int nthKey(const std::map<int, int>& mm, int n) { auto it = mm.begin(); std::advance(it, n); return it->first; }

    static void apply(Model& m, const Op& o) {
        int w = o.a & 1, k = o.b % m.K, v = o.c % 100;
        auto& x = m.m[w];
        switch (o.code) {
        case INSERT: case INSERT_PAIR: x.insert({k, v}); break;
        case INDEX_SET: x[k] = v; break;
        case INDEX_GET: x[k]; break;
        case FIND: break;
        case ERASE_KEY: case ERASE_FOUND_IT: x.erase(k); break;
        case ERASE_NTH_IT: x.erase(nthKey(x, o.d % (int) x.size())); break;
        case SET_VIA_IT: x[nthKey(x, o.d % (int) x.size())] = v; break;
        case CLEAR: x.clear(); break;
        case COPY: case ASSIGN: m.m[1 - w] = x; break;
        case SELF_ASSIGN: case SELF_SWAP: break;
        case SWAP: m.m[0].swap(m.m[1]); break;
        case BULK_INSERT: for (int i = 0, n = 1 + o.d % 8; i < n; ++i) x.insert({(k + i) % m.K, v + i}); break;
        case BULK_ERASE: for (int i = 0, n = 1 + o.d % 8; i < n; ++i) x.erase((k + i) % m.K); break;
        }
    }
    static void compare(const Model& m, Sut& s) {
        long total = 0;
        for (int w = 0; w < 2; ++w) {
            const PMap& x = *s.m[w];
            const auto& ref = m.m[w];
            RC_ASSERT(x.size() == ref.size());
            RC_ASSERT(x.empty() == ref.empty());
            std::map<int, int> seen;
            size_t steps = 0;
            for (PMap::const_iterator it = x.begin(); it != x.end(); ++it) {
                RC_ASSERT(++steps <= ref.size());
                RC_ASSERT(seen.insert({it->first, it->second.v}).second);
            }
            RC_ASSERT(seen == ref);
            for (int k = 0; k < m.K; ++k) {
                PMap::const_iterator it = x.find(k);
                bool found = it != x.end();
                RC_ASSERT(found == (ref.count(k) != 0));
                if (found) { RC_ASSERT(it->first == k); RC_ASSERT((*it).second.v == ref.at(k)); }
            }
            total += (long) ref.size();
        }
        RC_ASSERT(Counted::live() == total);
    }

    static void run(const Model& m0, Sut& s, const Op& o) {
        int w = o.a & 1, k = o.b % m0.K, v = o.c % 100;
        PMap& x = *s.m[w];
        const auto& ref = m0.m[w];
        size_t b0 = x.buckets(); bool hadFree = x.hasFree(); size_t sz0 = x.size();
        bool insertLike = false;
        Model m1 = m0;
        switch (o.code) {
        case INSERT: op("insert", "m%d,k=%d,v=%d", w, k, v); x.insert(k, Counted(v)); insertLike = true; break;
        case INSERT_PAIR: {
            op("insert_pair", "m%d,k=%d,v=%d", w, k, v);
            PMap::value_type p(k, Counted(v));
            x.insert(p); insertLike = true; break;
        }
        case INDEX_SET: op("index_set", "m%d,k=%d,v=%d", w, k, v); x[k] = Counted(v); insertLike = true; break;
        case INDEX_GET: {
            op("index_get", "m%d,k=%d", w, k);
            int got = x[k].v;
            RC_ASSERT(got == (ref.count(k) ? ref.at(k) : 0));
            insertLike = true; break;
        }
        case FIND: {
            op("find", "m%d,k=%d", w, k);
            PMap::iterator it = x.find(k);
            RC_ASSERT((it != x.end()) == (ref.count(k) != 0));
            if (it != x.end()) { RC_ASSERT(it->first == k); RC_ASSERT(it->second.v == ref.at(k)); }
            break;
        }
        case ERASE_KEY: {
            op("erase_key", "m%d,k=%d", w, k);
            size_t n = x.erase(k);
            RC_ASSERT(n == ref.count(k));
            if (n) markErase();
            break;
        }
        case ERASE_FOUND_IT: {
            op("erase_found_it", "m%d,k=%d", w, k);
            PMap::iterator it = x.find(k);     // may be end(): erase(end()) is documented as a no-op by the code
            bool had = it != x.end();
            x.erase(it);
            if (had) markErase();
            break;
        }
        case ERASE_NTH_IT: {
            int key = nthKey(ref, o.d % (int) ref.size());
            op("erase_nth_it", "m%d,key=%d", w, key);
            PMap::iterator it = x.begin();          // reach the element by iteration, not by find()
            size_t steps = 0;
            while (it != x.end() && it->first != key) { ++it; RC_ASSERT(++steps <= ref.size()); }
            RC_ASSERT(it != x.end());
            x.erase(it);
            markErase();
            break;
        }
        case SET_VIA_IT: {
            int key = nthKey(ref, o.d % (int) ref.size());
            op("set_via_it", "m%d,key=%d,v=%d", w, key, v);
            PMap::iterator it = x.begin();
            size_t steps = 0;
            while (it != x.end() && it->first != key) { it++; RC_ASSERT(++steps <= ref.size()); }
            RC_ASSERT(it != x.end());
            it->second = Counted(v);
            break;
        }
        case CLEAR: op("clear", "m%d", w); if (!ref.empty()) markErase(); x.clear(); break;
        case COPY: {
            int mgr = o.c & 1;
            op("copy", "m%d<-copy(m%d),mm%d", 1 - w, w, mgr + 1);
            std::unique_ptr<PMap> fresh(new PMap(x, s.mm(mgr)));
            delete s.m[1 - w];
            s.m[1 - w] = fresh.release();
            break;
        }
        case ASSIGN: op("assign", "m%d=m%d", 1 - w, w); static_cast<BaseMap&>(*s.m[1 - w]) = x; break;
        case SELF_ASSIGN: op("self_assign", "m%d", w); static_cast<BaseMap&>(x) = x; break;
        case SWAP: op("swap", "m0,m1"); s.m[0]->swap(*s.m[1]); break;
        case SELF_SWAP: op("self_swap", "m%d", w); x.swap(x); break;
        case BULK_INSERT: {
            int n = 1 + o.d % 8;
            op("bulk_insert", "m%d,k=%d,n=%d,v=%d", w, k, n, v);
            for (int i = 0; i < n; ++i) x.insert((k + i) % m0.K, Counted(v + i));
            insertLike = true; break;
        }
        case BULK_ERASE: {
            int n = 1 + o.d % 8;
            op("bulk_erase", "m%d,k=%d,n=%d", w, k, n);
            for (int i = 0; i < n; ++i) {
                size_t r = x.erase((k + i) % m0.K);
                if (r) markErase();
            }
            break;
        }
        }
        apply(m1, o);
        if (insertLike && o.code != COPY) {
            PMap& y = *s.m[w];
            if (b0 != 0 && y.buckets() != b0) { markGrowth(); ++G().opCount["~rehash"]; }
            if (hadFree && y.size() > sz0) ++G().opCount["~entry_reuse"];
        }
        compare(m1, s);
    }

    template <class Cmds>
    static void execute(const Config& c, const Model& m0, const Cmds& cmds) {
        g_hashMode = c.hash;
        header("# XalanMap<int,Counted> hash=%d loadFactor=%g minBuckets=%d,%d eraseThreshold=%d,%d keys=0..%d",
               c.hash, kLoad[c.lf], c.minB[0], c.minB[1], c.thr[0], c.thr[1], c.K - 1);
        {
            Sut s;
            s.m[0] = new PMap(s.mm1, kLoad[c.lf], c.minB[0], c.thr[0]);
            s.m[1] = new PMap(s.mm2, kLoad[c.lf], c.minB[1], c.thr[1]);
            compare(m0, s);
            rc::state::runAll(cmds, m0, s);
            G().curOp = "destroy";
            delete s.m[0]; s.m[0] = nullptr;
            delete s.m[1]; s.m[1] = nullptr;
            checkDeferred();
            RC_ASSERT(Counted::live() == 0);
            RC_ASSERT(s.mm1.outstanding() == 0u);
            RC_ASSERT(s.mm2.outstanding() == 0u);
            RC_ASSERT(s.mm1.foreign + s.mm2.foreign == 0u);
        }
    }
};

int main() { return mainFor("XalanMap", [] { stateCase<MapT>(); }); }
