// C20 target: XalanDOMStringPool and XalanDOMStringHashTable vs std::map / std::vector<std::u16string>
#include "c20_common.hpp"
#include <xalanc/PlatformSupport/XalanDOMStringPool.hpp>
#include <xalanc/PlatformSupport/XalanDOMStringHashTable.hpp>
#include <string>

using namespace c20;
using xalanc::XalanDOMString;
using xalanc::XalanDOMStringPool;
using xalanc::XalanDOMStringHashTable;
typedef xalanc::XalanDOMChar Ch;
typedef std::u16string U;

// small universe of strings with many shared prefixes; index 0 is the empty string
static U word(int k) {
    k %= 48;
    U r;
    if (k == 0) return r;
    if (k >= 40) { r = u"abababab"; r.push_back(char16_t(0xd800 + k)); return r; }
    for (int v = k + 1; v > 1; v >>= 1) r.push_back((v & 1) ? u'b' : u'a');
    return r;
}
static const Ch* P(const U& u) { return reinterpret_cast<const Ch*>(u.c_str()); }
static U toU(const XalanDOMString& s) { return U(reinterpret_cast<const char16_t*>(s.c_str()), s.length()); }
static std::string show(const U& u) {
    std::string r = "\"";
    for (char16_t c : u) { if (c >= 0x20 && c < 0x7f) r += char(c); else { char b[10]; snprintf(b, sizeof b, "\\u%04x", unsigned(c)); r += b; } }
    return r + "\"";
}

struct PoolT {
    struct Config { int blockSize, pBuckets, pBucketSize, tBuckets, tBucketSize; };
    struct Model {
        std::set<U> pool;            // distinct non-empty strings pooled
        std::vector<U> table;        // strings inserted in the stand-alone hash table, in order
    };
    struct Sut {
        CountingMM mm1{"mm1"}, mm2{"mm2"};
        XalanDOMStringPool* pool = nullptr;
        XalanDOMStringHashTable* table = nullptr;
        std::map<U, const XalanDOMString*> handed;       // pointer handed out by the pool per distinct string
        std::vector<XalanDOMString*> owned;              // strings referenced by the stand-alone table
        ~Sut() { delete pool; delete table; for (auto* p : owned) delete p; }
    };
    enum { GET_STR, GET_PTR, GET_PTR_N, GET_ZERO_LEN, GET_POOLED, POOL_CLEAR, T_INSERT, T_INSERT_IDX, T_FIND_STR, T_FIND_PTR, T_CLEAR, GET_MANY, NOP, NOPS };
    static const char* name(int c) {
        static const char* n[] = {"get_str", "get_ptr", "get_ptr_n", "get_zero_len", "get_pooled", "pool_clear", "t_insert", "t_insert_idx",
                                  "t_find_str", "t_find_ptr", "t_clear", "get_many", "nop"};
        return n[c];
    }
    static Config genConfig() {
        Config c;
        c.blockSize = *range(1, 5); c.pBuckets = *range(1, 6); c.pBucketSize = *range(1, 4);
        c.tBuckets = *range(1, 6); c.tBucketSize = *range(1, 4);
        return c;
    }
    static Model initialModel(const Config&) { return Model(); }
    static rc::Gen<Op> genOp(const Model&) {
        static const std::vector<int> w = {8, 6, 5, 2, 3, 1, 6, 4, 4, 4, 1, 3, 0};
        return rc::gen::map(genOpWeighted(w), [](Op o) {
            if (o.code == GET_ZERO_LEN && !patternEnabled("pool_get_zero_length")) { countExcluded("pool_get_zero_length"); o.code = NOP; }
            return o;
        });
    }
    static bool valid(const Model& m, const Op& o) {
        if (o.code == GET_ZERO_LEN) return patternEnabled("pool_get_zero_length");
        if (o.code == GET_POOLED) return !m.pool.empty();
        return true;
    }
    static U prefixArg(const Op& o) { U u = word(o.b); return u.substr(0, u.empty() ? 0 : 1 + o.c % u.size()); }
    static U nth(const std::set<U>& s, int n) { auto it = s.begin(); std::advance(it, n % s.size()); return *it; }

    static void apply(Model& m, const Op& o) {
        U u = word(o.b);
        switch (o.code) {
        case GET_STR: case GET_PTR: if (!u.empty()) m.pool.insert(u); break;
        case GET_PTR_N: { U p = prefixArg(o); if (!p.empty()) m.pool.insert(p); break; }
        case GET_MANY: for (int i = 0, n = 1 + o.d % 12; i < n; ++i) { U x = word(o.b + i); if (!x.empty()) m.pool.insert(x); } break;
        case POOL_CLEAR: m.pool.clear(); break;
        case T_INSERT: case T_INSERT_IDX: m.table.push_back(u); break;
        case T_CLEAR: m.table.clear(); break;
        default: break;
        }
    }

    static void checkGot(Sut& s, const U& expect, const XalanDOMString& got) {
        RC_ASSERT(toU(got) == expect);
        RC_ASSERT(got.c_str()[expect.size()] == 0);
        if (expect.empty()) return;
        auto it = s.handed.find(expect);
        if (it == s.handed.end()) {
            for (auto& kv : s.handed) RC_ASSERT(kv.second != &got);      // a new string must not reuse a live slot
            s.handed[expect] = &got;
        } else {
            RC_ASSERT(it->second == &got);                               // same pointer for equal strings
        }
    }

    static void compare(const Model& m, Sut& s) {
        RC_ASSERT(s.pool->size() == m.pool.size());
        RC_ASSERT(s.pool->getHashTable().size() == m.pool.size());
        RC_ASSERT(s.handed.size() == m.pool.size());
        for (auto& kv : s.handed) {              // every reference handed out earlier is still valid and unchanged
            RC_ASSERT(m.pool.count(kv.first) == 1u);
            RC_ASSERT(toU(*kv.second) == kv.first);
            const XalanDOMString* f = s.pool->getHashTable().find(P(kv.first), kv.first.size());
            RC_ASSERT(f == kv.second);
        }
        XalanDOMStringHashTable::BucketCountsType counts(s.mm1);
        s.pool->getHashTable().getBucketCounts(counts);
        size_t sum = 0;
        for (size_t i = 0; i < counts.size(); ++i) sum += counts[i];
        RC_ASSERT(sum == m.pool.size());

        RC_ASSERT(s.table->size() == m.table.size());
        XalanDOMStringHashTable::BucketCountsType tc(s.mm1);
        s.table->getBucketCounts(tc);
        RC_ASSERT(tc.size() == s.table->bucketCount());
        sum = 0;
        for (size_t i = 0; i < tc.size(); ++i) sum += tc[i];
        RC_ASSERT(sum == m.table.size());
    }
    static const XalanDOMString* firstOwned(const Model& m, Sut& s, const U& u) {
        for (size_t i = 0; i < m.table.size(); ++i) if (m.table[i] == u) return s.owned[i];
        return nullptr;
    }

    static void run(const Model& m0, Sut& s, const Op& o) {
        U u = word(o.b);
        Model m1 = m0;
        apply(m1, o);
        size_t allocs0 = s.mm1.allocs;
        switch (o.code) {
        case GET_STR: {
            op("get_str", "%s", show(u).c_str());
            XalanDOMString tmp(P(u), s.mm2);
            checkGot(s, u, s.pool->get(tmp));
            break;
        }
        case GET_PTR: op("get_ptr", "%s", show(u).c_str()); checkGot(s, u, s.pool->get(P(u))); break;
        case GET_PTR_N: {
            U p = prefixArg(o);
            op("get_ptr_n", "%s,%zu", show(u).c_str(), p.size());
            checkGot(s, p, s.pool->get(P(u), p.size()));
            break;
        }
        case GET_ZERO_LEN: {
            noteOnly("pool_get_zero_length");
            U b = u.empty() ? U(u"ab") : u;
            op("get_zero_len", "%s,0", show(b).c_str());
            const XalanDOMString& e1 = s.pool->get(P(b), 0);
            XalanDOMString empty(s.mm2);
            const XalanDOMString& e2 = s.pool->get(empty);
            RC_ASSERT(e1.length() == 0u);
            RC_ASSERT(e2.length() == 0u);
            RC_ASSERT(&e1 == &e2);          // same pointer for equal strings
            break;
        }
        case GET_POOLED: {
            U k = nth(m0.pool, o.b);
            op("get_pooled", "%s (passing the pooled instance itself)", show(k).c_str());
            const XalanDOMString* p = s.handed.at(k);
            checkGot(s, k, s.pool->get(*p));
            break;
        }
        case GET_MANY: {
            int n = 1 + o.d % 12;
            op("get_many", "from=%d,n=%d", o.b % 48, n);
            for (int i = 0; i < n; ++i) { U x = word(o.b + i); checkGot(s, x, s.pool->get(P(x), x.size())); }
            break;
        }
        case POOL_CLEAR:
            op("pool_clear", "");
            if (!m0.pool.empty()) markErase();
            s.pool->clear();
            s.handed.clear();
            break;
        case T_INSERT: {
            op("t_insert", "%s", show(u).c_str());
            std::unique_ptr<XalanDOMString> str(new XalanDOMString(P(u), s.mm2));
            s.table->insert(*str);
            s.owned.push_back(str.release());
            break;
        }
        case T_INSERT_IDX: {
            op("t_insert_idx", "%s", show(u).c_str());
            std::unique_ptr<XalanDOMString> str(new XalanDOMString(P(u), s.mm2));
            size_t idx = ~size_t(0);
            const XalanDOMString* f = s.table->find(*str, &idx);
            RC_ASSERT(f == firstOwned(m0, s, u));
            RC_ASSERT(idx < s.table->bucketCount());
            s.table->insert(*str, idx);
            s.owned.push_back(str.release());
            break;
        }
        case T_FIND_STR: {
            op("t_find_str", "%s", show(u).c_str());
            XalanDOMString tmp(P(u), s.mm2);
            RC_ASSERT(s.table->find(tmp) == firstOwned(m0, s, u));
            break;
        }
        case T_FIND_PTR: {
            U p = prefixArg(o);
            op("t_find_ptr", "%s,%zu", show(u).c_str(), p.size());
            RC_ASSERT(s.table->find(P(u), p.size()) == firstOwned(m0, s, p));
            RC_ASSERT(s.table->find(P(p)) == firstOwned(m0, s, p));
            break;
        }
        case T_CLEAR:
            op("t_clear", "");
            s.table->clear();
            for (auto* p : s.owned) delete p;
            s.owned.clear();
            break;
        case NOP: op("nop", ""); break;
        }
        if (m1.pool.size() > m0.pool.size() && !m0.pool.empty() && s.mm1.allocs > allocs0) { markGrowth(); ++G().opCount["~pool_block_or_bucket_alloc"]; }
        compare(m1, s);
    }

    template <class Cmds>
    static void execute(const Config& c, const Model& m0, const Cmds& cmds) {
        header("# XalanDOMStringPool(blockSize=%d,buckets=%d,bucketSize=%d) on mm1; XalanDOMStringHashTable(buckets=%d,bucketSize=%d) on mm1, its strings on mm2",
               c.blockSize, c.pBuckets, c.pBucketSize, c.tBuckets, c.tBucketSize);
        Sut s;
        s.pool = new XalanDOMStringPool(s.mm1, c.blockSize, c.pBuckets, c.pBucketSize);
        s.table = new XalanDOMStringHashTable(s.mm1, c.tBuckets, c.tBucketSize);
        RC_ASSERT(s.table->bucketCount() == size_t(c.tBuckets));
        compare(m0, s);
        rc::state::runAll(cmds, m0, s);
        G().curOp = "destroy";
        delete s.pool; s.pool = nullptr;
        delete s.table; s.table = nullptr;
        for (auto* p : s.owned) delete p;
        s.owned.clear();
        checkDeferred();
        RC_ASSERT(s.mm1.outstanding() == 0u);
        RC_ASSERT(s.mm2.outstanding() == 0u);
        RC_ASSERT(s.mm1.foreign + s.mm2.foreign == 0u);
    }
};

int main() { return mainFor("XalanDOMStringPool", [] { stateCase<PoolT>(); }); }
