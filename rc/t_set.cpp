// C20 target: XalanSet<SKey> (XalanMap<SKey,bool> with the default 29 buckets / erase threshold 50) vs std::set<int>
#include "c20_common.hpp"
// classification only (observing the bucket count to recognise a rehash): XalanSet hides its map
#define private public
#define protected public
#include <xalanc/Include/XalanMap.hpp>
#include <xalanc/Include/XalanSet.hpp>
#undef private
#undef protected

using namespace c20;

static int g_hashMode = 0;
struct SKey {
    int v;
    bool operator==(const SKey& o) const { return v == o.v; }
};
namespace XALAN_CPP_NAMESPACE {
template <>
struct XalanMapKeyTraits<SKey> {
    struct Hasher {
        size_t operator()(const SKey& k) const {
            switch (g_hashMode) {
            case 0: return size_t(unsigned(k.v) % 5u);
            case 1: return size_t(unsigned(k.v) * 29u);        // all keys in bucket 0 until the first rehash
            case 2: return size_t(k.v);
            default: return size_t(unsigned(k.v) * 2654435761u);
            }
        }
    };
    typedef std::equal_to<SKey> Comparator;
};
}
typedef xalanc::XalanSet<SKey> Set;

struct SetT {
    struct Config { int hash, K; };
    struct Model { std::set<int> s[2]; int K; };
    struct Sut {
        CountingMM mm1{"mm1"}, mm2{"mm2"};
        Set* s[2] = {nullptr, nullptr};
        ~Sut() { delete s[0]; delete s[1]; }
        CountingMM& mm(int i) { return i ? mm2 : mm1; }
    };
    enum { INSERT, ERASE, FIND, CLEAR, COPY, OP_ASSIGN, SELF_ASSIGN, BULK_INSERT, BULK_ERASE, NOPS };
    static const char* name(int c) {
        static const char* n[] = {"insert", "erase", "find", "clear", "copy", "op_assign", "self_assign", "bulk_insert", "bulk_erase"};
        return n[c];
    }
    static Config genConfig() { Config c; c.hash = *range(0, 4); c.K = *range(8, 97); return c; }
    static Model initialModel(const Config& c) { Model m; m.K = c.K; return m; }
    static rc::Gen<Op> genOp(const Model&) {
        static const std::vector<int> w = {8, 8, 3, 1, 1, 1, 1, 8, 7};
        return genOpWeighted(w);
    }
    static bool valid(const Model&, const Op&) { return true; }
    static void apply(Model& m, const Op& o) {
        int w = o.a & 1, k = o.b % m.K;
        auto& x = m.s[w];
        switch (o.code) {
        case INSERT: x.insert(k); break;
        case ERASE: x.erase(k); break;
        case CLEAR: x.clear(); break;
        case COPY: case OP_ASSIGN: m.s[1 - w] = x; break;
        case BULK_INSERT: for (int i = 0, n = 1 + o.d % 40; i < n; ++i) x.insert((k + i * (1 + o.c % 3)) % m.K); break;
        case BULK_ERASE: for (int i = 0, n = 1 + o.d % 40; i < n; ++i) x.erase((k + i * (1 + o.c % 3)) % m.K); break;
        }
    }
    static void compare(const Model& m, Sut& s) {
        for (int w = 0; w < 2; ++w) {
            const Set& x = *s.s[w];
            const auto& ref = m.s[w];
            RC_ASSERT(x.size() == ref.size());
            std::set<int> seen;
            size_t steps = 0;
            for (Set::const_iterator it = x.begin(); it != x.end(); ++it) {
                RC_ASSERT(++steps <= ref.size());
                RC_ASSERT(seen.insert((*it).v).second);
            }
            RC_ASSERT(seen == ref);
            steps = 0;
            for (Set::const_iterator it = x.begin(); it != x.end(); it++) ++steps;
            RC_ASSERT(steps == ref.size());
            for (int k = 0; k < m.K; ++k) {
                SKey key{k};
                RC_ASSERT(x.count(key) == ref.count(k));
                Set::const_iterator it = x.find(key);
                RC_ASSERT((it != x.end()) == (ref.count(k) != 0));
                if (it != x.end()) RC_ASSERT((*it).v == k);
            }
        }
    }
    static void run(const Model& m0, Sut& s, const Op& o) {
        int w = o.a & 1, k = o.b % m0.K;
        Set& x = *s.s[w];
        const auto& ref = m0.s[w];
        Model m1 = m0;
        apply(m1, o);
        size_t buckets0 = x.m_map.m_buckets.size();
        switch (o.code) {
        case INSERT: op("insert", "s%d,%d", w, k); x.insert(SKey{k}); break;
        case ERASE: {
            op("erase", "s%d,%d", w, k);
            size_t n = x.erase(SKey{k});
            RC_ASSERT(n == ref.count(k));
            if (n) markErase();
            break;
        }
        case FIND: {
            op("find", "s%d,%d", w, k);
            Set::const_iterator it = x.find(SKey{k});
            RC_ASSERT((it != x.end()) == (ref.count(k) != 0));
            break;
        }
        case CLEAR: op("clear", "s%d", w); if (!ref.empty()) markErase(); x.clear(); break;
        case COPY: {
            int mgr = o.c & 1;
            op("copy", "s%d<-copy(s%d),mm%d", 1 - w, w, mgr + 1);
            std::unique_ptr<Set> fresh(new Set(x, s.mm(mgr)));
            delete s.s[1 - w]; s.s[1 - w] = fresh.release();
            break;
        }
        case OP_ASSIGN: op("op_assign", "s%d=s%d", 1 - w, w); *s.s[1 - w] = x; break;
        case SELF_ASSIGN: op("self_assign", "s%d", w); x = x; break;
        case BULK_INSERT: {
            int n = 1 + o.d % 40, step = 1 + o.c % 3;
            op("bulk_insert", "s%d,from=%d,n=%d,step=%d", w, k, n, step);
            for (int i = 0; i < n; ++i) x.insert(SKey{(k + i * step) % m0.K});
            break;
        }
        case BULK_ERASE: {
            int n = 1 + o.d % 40, step = 1 + o.c % 3;
            op("bulk_erase", "s%d,from=%d,n=%d,step=%d", w, k, n, step);
            for (int i = 0; i < n; ++i) if (x.erase(SKey{(k + i * step) % m0.K})) markErase();
            break;
        }
        }
        // rehash happens when 0.75 * size exceeds the bucket count (29 at first)
        if ((o.code == INSERT || o.code == BULK_INSERT) && buckets0 != 0 && s.s[w]->m_map.m_buckets.size() != buckets0) { markGrowth(); ++G().opCount["~rehash"]; }
        compare(m1, s);
    }
    template <class Cmds>
    static void execute(const Config& c, const Model& m0, const Cmds& cmds) {
        g_hashMode = c.hash;
        header("# XalanSet<SKey> hash=%d keys=0..%d", c.hash, c.K - 1);
        Sut s;
        s.s[0] = new Set(s.mm1);
        s.s[1] = new Set(s.mm2);
        compare(m0, s);
        rc::state::runAll(cmds, m0, s);
        G().curOp = "destroy";
        delete s.s[0]; s.s[0] = nullptr;
        delete s.s[1]; s.s[1] = nullptr;
        checkDeferred();
        RC_ASSERT(s.mm1.outstanding() == 0u);
        RC_ASSERT(s.mm2.outstanding() == 0u);
        RC_ASSERT(s.mm1.foreign + s.mm2.foreign == 0u);
    }
};

int main() { return mainFor("XalanSet", [] { stateCase<SetT>(); }); }
