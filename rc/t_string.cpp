// C20 target: XalanDOMString vs std::u16string
#include "c20_common.hpp"
#include <xalanc/XalanDOM/XalanDOMString.hpp>
#include <stdexcept>
#include <string>

using namespace c20;
typedef xalanc::XalanDOMString Str;
typedef xalanc::XalanDOMChar Ch;
typedef std::u16string U;
static const Str::size_type NPOS = Str::npos;

static const char16_t kAlpha[] = {u'a', u'b', u'c', 0x00e9, 0xd800, 0xffff, u'z'};
static char16_t chr(int k) { return kAlpha[k % 7]; }
static int sgn(int x) { return (x > 0) - (x < 0); }

struct StrT {
    struct Config { int dummy; };
    struct Model { U s[3]; int mgr[3]; };    // s[2] is the scratch/result string
    struct Sut {
        CountingMM mm1{"mm1"}, mm2{"mm2"};
        Str* s[3] = {nullptr, nullptr, nullptr};
        ~Sut() { delete s[0]; delete s[1]; delete s[2]; }
        CountingMM& mm(int i) { return i ? mm2 : mm1; }
    };
    enum { APPEND_STR, APPEND_SUB, APPEND_SUB_NPOS, APPEND_PTR_N, APPEND_PTR, APPEND_CSTR, APPEND_FILL, PUSH_BACK, PLUS_EQ,
           INSERT_STR, INSERT_SUB, INSERT_PTR_N, INSERT_PTR, INSERT_FILL, INSERT_IT_CH, INSERT_IT_FILL, INSERT_IT_RANGE,
           ERASE_POS, ERASE_POS_NPOS, ERASE_IT, ERASE_IT_RANGE,
           ASSIGN_STR, ASSIGN_SUB, SELF_ASSIGN_SUB, ASSIGN_PTR, ASSIGN_PTR_N, ASSIGN_CSTR, ASSIGN_FILL, ASSIGN_CH, ASSIGN_IT_RANGE, SELF_ASSIGN,
           RESIZE, RESIZE_FILL, RESERVE, CLEAR, SWAP, SELF_SWAP,
           SUBSTR, SUBSTR_NPOS, COMPARE_STR, COMPARE_SUB, COMPARE_SUB_SUB, COMPARE_PTR, COMPARE_SUB_PTR_N, COMPARE_SUB_PTR_DEFAULT,
           AT_SET, AT_SIZE, AT_OOR, SET_INDEX, COPY_CTOR, PTR_CTOR, FILL_CTOR, CLONE, RESET,
           ALIAS_INSERT_SELF, ALIAS_APPEND_SELF, NOP, NOPS };
    static const char* name(int c) {
        static const char* n[] = {"append_str", "append_sub", "append_sub_npos", "append_ptr_n", "append_ptr", "append_cstr", "append_fill",
            "push_back", "plus_eq", "insert_str", "insert_sub", "insert_ptr_n", "insert_ptr", "insert_fill", "insert_it_ch",
            "insert_it_fill", "insert_it_range", "erase_pos", "erase_pos_npos", "erase_it", "erase_it_range", "assign_str", "assign_sub",
            "self_assign_sub", "assign_ptr", "assign_ptr_n", "assign_cstr", "assign_fill", "assign_ch", "assign_it_range", "self_assign",
            "resize", "resize_fill", "reserve", "clear", "swap", "self_swap", "substr", "substr_npos", "compare_str", "compare_sub",
            "compare_sub_sub", "compare_ptr", "compare_sub_ptr_n", "compare_sub_ptr_default", "at_set", "at_size", "at_out_of_range",
            "set_index", "copy_ctor", "ptr_ctor", "fill_ctor", "clone", "reset", "alias_insert_self", "alias_append_self", "nop"};
        return n[c];
    }
    static bool hasNul(const U& u) { return u.find(char16_t(0)) != U::npos; }
    // pattern (known-deviation class) an op belongs to in the given state, or null
    static const char* pattern(const Model& m, const Op& o) {
        int w = o.a & 1;
        const U& x = m.s[w];
        const U& y = m.s[1 - w];
        switch (o.code) {
        case APPEND_SUB_NPOS: return "str_append_npos";
        case SUBSTR_NPOS: return (x.size() > 1 && o.b % x.size() > 0) ? "str_substr_npos" : nullptr;
        case RESIZE_FILL: return size_t(o.b % 13) > x.size() ? "str_resize_fill_grow" : nullptr;
        case RESIZE: return size_t(o.b % 13) > x.size() ? "str_embedded_nul" : nullptr;
        case COMPARE_STR: return hasNul(y) ? "str_embedded_nul" : nullptr;
        case COMPARE_SUB_PTR_DEFAULT: return "str_compare_ptr_default_count";
        case AT_SIZE: return "str_at_size";
        case ERASE_IT_RANGE: return x.empty() ? "str_erase_range_on_empty" : nullptr;
        }
        return nullptr;
    }
    static Config genConfig() { return Config(); }
    static Model initialModel(const Config&) { Model m; m.mgr[0] = 0; m.mgr[1] = 1; m.mgr[2] = 0; return m; }
    static rc::Gen<Op> genOp(const Model& m) {
        static const std::vector<int> w = {
            4, 3, 2, 4, 3, 2, 4, 4, 2,          // append*
            4, 3, 4, 2, 3, 3, 2, 3,             // insert*
            4, 2, 3, 3,                         // erase*
            2, 3, 2, 2, 2, 1, 2, 1, 2, 1,       // assign*
            2, 2, 2, 1, 1, 1,                   // resize, resize_fill, reserve, clear, swap, self_swap
            3, 2, 2, 2, 2, 2, 2, 2,             // substr, substr_npos, compare*
            2, 1, 1, 2, 2, 1, 1, 1, 1,          // at*, set_index, ctors, clone, reset
            2, 2, 0};
        Model mc = m;
        return rc::gen::map(genOpWeighted(w), [mc](Op o) {
            const char* p = pattern(mc, o);
            if (p && !patternEnabled(p)) { countExcluded(p); o.code = NOP; }
            return o;
        });
    }
    static U localBuf(const Op& o) {
        U r;
        for (int i = 0, n = o.d % 7; i < n; ++i) r.push_back(chr(o.c + i));
        return r;
    }
    static std::string localAscii(const Op& o) {
        std::string r;
        for (int i = 0, n = o.d % 7; i < n; ++i) r.push_back(char('A' + (o.c + i) % 26));
        return r;
    }
    static void sub(int c, int d, size_t size, size_t& i, size_t& n) { i = c % (size + 1); n = d % (size - i + 1); }   // i + n <= size
    static void subStrict(int c, int d, size_t size, size_t& i, size_t& n) { i = c % size; n = d % (size - i + 1); }     // i < size

    static bool valid(const Model& m, const Op& o) {
        int w = o.a & 1;
        const U& x = m.s[w];
        const U& y = m.s[1 - w];
        const char* p = pattern(m, o);
        if (p && !patternEnabled(p)) return false;
        switch (o.code) {
        case APPEND_SUB: case APPEND_SUB_NPOS: case ASSIGN_SUB: return !y.empty();          // asserted: position < source length
        case SELF_ASSIGN_SUB: case SUBSTR: case SUBSTR_NPOS: case ERASE_IT: case AT_SET: case SET_INDEX:
        case ALIAS_INSERT_SELF: case ALIAS_APPEND_SELF:
            return !x.empty();
        }
        return true;
    }

    static void apply(Model& m, const Op& o) {
        int w = o.a & 1;
        U& x = m.s[w];
        U& y = m.s[1 - w];
        U& t = m.s[2];
        size_t pos = o.b % (x.size() + 1);
        char16_t ch = chr(o.c);
        U buf = localBuf(o);
        size_t i, n;
        switch (o.code) {
        case APPEND_STR: x.append(y); break;
        case APPEND_SUB: subStrict(o.c, o.d, y.size(), i, n); x.append(y, i, n); break;
        case APPEND_SUB_NPOS: x.append(y, o.c % y.size(), U::npos); break;
        case APPEND_PTR_N: case APPEND_PTR: x.append(buf); break;
        case APPEND_CSTR: { std::string a = localAscii(o); x.append(U(a.begin(), a.end())); break; }
        case APPEND_FILL: x.append(size_t(o.d % 6), ch); break;
        case PUSH_BACK: x.push_back(ch); break;
        case PLUS_EQ: if (o.d % 3 == 0) x += y; else if (o.d % 3 == 1) x += ch; else x += buf; break;
        case INSERT_STR: x.insert(pos, y); break;
        case INSERT_SUB: sub(o.c, o.d, y.size(), i, n); x.insert(pos, y, i, n); break;
        case INSERT_PTR_N: case INSERT_PTR: x.insert(pos, buf); break;
        case INSERT_FILL: case INSERT_IT_FILL: x.insert(pos, size_t(o.d % 6), ch); break;
        case INSERT_IT_CH: x.insert(pos, size_t(1), ch); break;
        case INSERT_IT_RANGE: sub(o.c, o.d, y.size(), i, n); x.insert(pos, y, i, n); break;
        case ERASE_POS: sub(o.b, o.d, x.size(), i, n); x.erase(i, n); break;
        case ERASE_POS_NPOS: x.erase(o.b % (x.size() + 1)); break;
        case ERASE_IT: x.erase(o.b % x.size(), 1); break;
        case ERASE_IT_RANGE: sub(o.b, o.d, x.size(), i, n); x.erase(i, n); break;
        case ASSIGN_STR: x = y; break;
        case ASSIGN_SUB: subStrict(o.c, o.d, y.size(), i, n); x.assign(y, i, n); break;
        case SELF_ASSIGN_SUB: subStrict(o.c, o.d, x.size(), i, n); x = x.substr(i, n); break;
        case ASSIGN_PTR: case ASSIGN_PTR_N: x = buf; break;
        case ASSIGN_CSTR: { std::string a = localAscii(o); x = U(a.begin(), a.end()); break; }
        case ASSIGN_FILL: x.assign(size_t(o.d % 6), ch); break;
        case ASSIGN_CH: x.assign(size_t(1), ch); break;
        case ASSIGN_IT_RANGE: sub(o.c, o.d, y.size(), i, n); x.assign(y, i, n); break;
        case RESIZE: x.resize(o.b % 13); break;
        case RESIZE_FILL: x.resize(o.b % 13, ch); break;
        case CLEAR: x.clear(); break;
        case SWAP: m.s[0].swap(m.s[1]); std::swap(m.mgr[0], m.mgr[1]); break;
        case SUBSTR: subStrict(o.b, o.d, x.size(), i, n); t = x.substr(i, n); break;
        case SUBSTR_NPOS: t = x.substr(o.b % x.size()); break;
        case AT_SET: case SET_INDEX: x[o.b % x.size()] = ch; break;
        case COPY_CTOR:
            if (x.empty()) y.clear();
            else if (o.d & 1) y = x.substr(o.c % x.size());
            else { subStrict(o.c, o.d >> 1, x.size(), i, n); y = x.substr(i, n); }
            m.mgr[1 - w] = o.b & 1;
            break;
        case PTR_CTOR: y = (o.b & 2) ? buf : buf.substr(0, buf.size() / 2); m.mgr[1 - w] = o.b & 1; break;
        case FILL_CTOR: y.assign(size_t(o.d % 6), ch); m.mgr[1 - w] = o.b & 1; break;
        case RESET: x = buf; m.mgr[w] = o.b & 1; break;
        case ALIAS_INSERT_SELF: { U c = x; x.insert(pos, c); break; }
        case ALIAS_APPEND_SELF: { U c = x; x.append(c); break; }
        default: break;
        }
    }

    static void compare(const Model& m, Sut& s) {
        for (int w = 0; w < 3; ++w) {
            Str& x = *s.s[w];
            const Str& cx = x;
            const U& ref = m.s[w];
            RC_ASSERT(cx.length() == ref.size());
            RC_ASSERT(cx.size() == ref.size());
            RC_ASSERT(cx.empty() == ref.empty());
            RC_ASSERT(cx.capacity() >= cx.length());
            const Ch* p = cx.c_str();
            RC_ASSERT(p != nullptr);
            RC_ASSERT(U(reinterpret_cast<const char16_t*>(p), ref.size()) == ref);
            RC_ASSERT(p[ref.size()] == 0);                      // NUL terminator
            RC_ASSERT(cx.data() == p);
            RC_ASSERT(size_t(cx.end() - cx.begin()) == ref.size());
            RC_ASSERT(size_t(x.end() - x.begin()) == ref.size());
            size_t i = 0;
            for (Str::const_iterator it = cx.begin(); it != cx.end(); ++it, ++i) RC_ASSERT(char16_t(*it) == ref[i]);
            i = ref.size();
            for (Str::const_reverse_iterator it = cx.rbegin(); it != cx.rend(); ++it) { RC_ASSERT(i > 0u); --i; RC_ASSERT(char16_t(*it) == ref[i]); }
            RC_ASSERT(i == 0u);
            i = ref.size();
            for (Str::reverse_iterator it = x.rbegin(); it != x.rend(); ++it) { RC_ASSERT(i > 0u); --i; RC_ASSERT(char16_t(*it) == ref[i]); }
            RC_ASSERT(i == 0u);
            for (i = 0; i < ref.size(); ++i) { RC_ASSERT(char16_t(cx[i]) == ref[i]); RC_ASSERT(char16_t(cx.at(i)) == ref[i]); }
            RC_ASSERT(&x.getMemoryManager() == (xercesc::MemoryManager*) &s.mm(m.mgr[w]));
        }
        for (int a = 0; a < 3; ++a)
            for (int b = a; b < 3; ++b) {
                bool eq = m.s[a] == m.s[b];
                RC_ASSERT(Str::equals(*s.s[a], *s.s[b]) == eq);
                RC_ASSERT((*s.s[a] == *s.s[b]) == eq);
                RC_ASSERT((*s.s[a] != *s.s[b]) == !eq);
                if (!hasNul(m.s[a]) && !hasNul(m.s[b])) RC_ASSERT((*s.s[a] == s.s[b]->c_str()) == (m.s[a] == m.s[b].c_str()));
                if (eq) RC_ASSERT(s.s[a]->hash() == s.s[b]->hash());
            }
    }

    static const Ch* P(const U& u) { return reinterpret_cast<const Ch*>(u.c_str()); }
    static std::string show(const U& u) {
        std::string r = "\"";
        for (char16_t c : u) { if (c >= 0x20 && c < 0x7f) r += char(c); else { char b[10]; snprintf(b, sizeof b, "\\u%04x", unsigned(c)); r += b; } }
        return r + "\"";
    }

    static void run(const Model& m0, Sut& s, const Op& o) {
        int w = o.a & 1;
        Str& x = *s.s[w];
        Str& y = *s.s[1 - w];
        Str& t = *s.s[2];
        const Str& cx = x;
        const U& rx = m0.s[w];
        const U& ry = m0.s[1 - w];
        size_t pos = o.b % (rx.size() + 1);
        char16_t ch = chr(o.c);
        U buf = localBuf(o);
        std::string bs = show(buf);
        size_t i, n;
        size_t cap0 = x.capacity();
        if (const char* p = pattern(m0, o)) noteOnly(p);
        Model m1 = m0;
        apply(m1, o);
        // failures in states that contain an embedded NUL get their own signature class
        bool nul = false;
        for (int k = 0; k < 3; ++k) nul = nul || hasNul(m0.s[k]) || hasNul(m1.s[k]);
        G().opSuffix = nul ? "+nul" : "";
        if (m1.s[w].size() < rx.size() && o.code != SWAP) markErase();
        switch (o.code) {
        case APPEND_STR: op("append_str", "s%d,s%d", w, 1 - w); x.append(y); break;
        case APPEND_SUB: subStrict(o.c, o.d, ry.size(), i, n); op("append_sub", "s%d,s%d,%zu,%zu", w, 1 - w, i, n); x.append(y, i, n); break;
        case APPEND_SUB_NPOS: i = o.c % ry.size(); op("append_sub_npos", "s%d,s%d,%zu,npos", w, 1 - w, i); x.append(y, i, NPOS); break;
        case APPEND_PTR_N: op("append_ptr_n", "s%d,%s,%zu", w, bs.c_str(), buf.size()); x.append(P(buf), buf.size()); break;
        case APPEND_PTR: op("append_ptr", "s%d,%s", w, bs.c_str()); x.append(P(buf)); break;
        case APPEND_CSTR: {
            std::string a = localAscii(o);
            op("append_cstr", "s%d,'%s',%s", w, a.c_str(), (o.b & 1) ? "n" : "nul-terminated");
            if (o.b & 1) x.append(a.c_str(), a.size()); else x.append(a.c_str());
            break;
        }
        case APPEND_FILL: op("append_fill", "s%d,%d,U+%04x", w, o.d % 6, unsigned(ch)); x.append(size_t(o.d % 6), Ch(ch)); break;
        case PUSH_BACK: op("push_back", "s%d,U+%04x", w, unsigned(ch)); x.push_back(Ch(ch)); break;
        case PLUS_EQ:
            op("plus_eq", "s%d,kind=%d,%s", w, o.d % 3, bs.c_str());
            if (o.d % 3 == 0) x += y; else if (o.d % 3 == 1) x += Ch(ch); else x += P(buf);
            break;
        case INSERT_STR: op("insert_str", "s%d,%zu,s%d", w, pos, 1 - w); x.insert(pos, y); break;
        case INSERT_SUB: sub(o.c, o.d, ry.size(), i, n); op("insert_sub", "s%d,%zu,s%d,%zu,%zu", w, pos, 1 - w, i, n); x.insert(pos, y, i, n); break;
        case INSERT_PTR_N: op("insert_ptr_n", "s%d,%zu,%s,%zu", w, pos, bs.c_str(), buf.size()); x.insert(pos, P(buf), buf.size()); break;
        case INSERT_PTR: op("insert_ptr", "s%d,%zu,%s", w, pos, bs.c_str()); x.insert(pos, P(buf)); break;
        case INSERT_FILL: op("insert_fill", "s%d,%zu,%d,U+%04x", w, pos, o.d % 6, unsigned(ch)); x.insert(pos, size_t(o.d % 6), Ch(ch)); break;
        case INSERT_IT_CH: {
            op("insert_it_ch", "s%d,begin+%zu,U+%04x", w, pos, unsigned(ch));
            Str::iterator it = x.insert(x.begin() + pos, Ch(ch));
            RC_ASSERT(size_t(it - x.begin()) == pos);
            RC_ASSERT(char16_t(*it) == ch);
            break;
        }
        case INSERT_IT_FILL: op("insert_it_fill", "s%d,begin+%zu,%d,U+%04x", w, pos, o.d % 6, unsigned(ch)); x.insert(x.begin() + pos, size_t(o.d % 6), Ch(ch)); break;
        case INSERT_IT_RANGE:
            sub(o.c, o.d, ry.size(), i, n);
            op("insert_it_range", "s%d,begin+%zu,s%d[%zu,%zu)", w, pos, 1 - w, i, i + n);
            x.insert(x.begin() + pos, y.begin() + i, y.begin() + i + n);
            break;
        case ERASE_POS: sub(o.b, o.d, rx.size(), i, n); op("erase_pos", "s%d,%zu,%zu", w, i, n); x.erase(i, n); break;
        case ERASE_POS_NPOS: i = o.b % (rx.size() + 1); op("erase_pos_npos", "s%d,%zu", w, i); x.erase(i); break;
        case ERASE_IT: {
            i = o.b % rx.size();
            op("erase_it", "s%d,begin+%zu", w, i);
            Str::iterator it = x.erase(x.begin() + i);
            RC_ASSERT(size_t(it - x.begin()) == i);
            break;
        }
        case ERASE_IT_RANGE: {
            sub(o.b, o.d, rx.size(), i, n);
            op(rx.empty() ? "erase_it_range_on_empty" : "erase_it_range", "s%d,[begin+%zu,begin+%zu)", w, i, i + n);
            Str::iterator it = x.erase(x.begin() + i, x.begin() + i + n);
            RC_ASSERT(size_t(it - x.begin()) == i);
            break;
        }
        case ASSIGN_STR: op("assign_str", "s%d=s%d,%s", w, 1 - w, (o.b & 1) ? "operator=" : "assign"); if (o.b & 1) x = y; else x.assign(y); break;
        case ASSIGN_SUB: subStrict(o.c, o.d, ry.size(), i, n); op("assign_sub", "s%d,s%d,%zu,%zu", w, 1 - w, i, n); x.assign(y, i, n); break;
        case SELF_ASSIGN_SUB: subStrict(o.c, o.d, rx.size(), i, n); op("self_assign_sub", "s%d,s%d,%zu,%zu", w, w, i, n); x.assign(x, i, n); break;
        case ASSIGN_PTR: op("assign_ptr", "s%d,%s,%s", w, bs.c_str(), (o.b & 1) ? "operator=" : "assign"); if (o.b & 1) x = P(buf); else x.assign(P(buf)); break;
        case ASSIGN_PTR_N: op("assign_ptr_n", "s%d,%s,%zu", w, bs.c_str(), buf.size()); x.assign(P(buf), buf.size()); break;
        case ASSIGN_CSTR: {
            std::string a = localAscii(o);
            op("assign_cstr", "s%d,'%s',kind=%d", w, a.c_str(), o.b % 3);
            if (o.b % 3 == 0) x.assign(a.c_str()); else if (o.b % 3 == 1) x.assign(a.c_str(), a.size()); else x = a.c_str();
            break;
        }
        case ASSIGN_FILL: op("assign_fill", "s%d,%d,U+%04x", w, o.d % 6, unsigned(ch)); x.assign(size_t(o.d % 6), Ch(ch)); break;
        case ASSIGN_CH: op("assign_ch", "s%d=U+%04x", w, unsigned(ch)); x = Ch(ch); break;
        case ASSIGN_IT_RANGE:
            sub(o.c, o.d, ry.size(), i, n);
            op("assign_it_range", "s%d,s%d[%zu,%zu)", w, 1 - w, i, i + n);
            x.assign(y.begin() + i, y.begin() + i + n);
            break;
        case SELF_ASSIGN: op("self_assign", "s%d", w); x = x; break;
        case RESIZE: op("resize", "s%d,%d (length was %zu)", w, o.b % 13, rx.size()); x.resize(o.b % 13); break;
        case RESIZE_FILL:
            op(size_t(o.b % 13) > rx.size() ? "resize_fill_grow" : "resize_fill", "s%d,%d,U+%04x (length was %zu)", w, o.b % 13, unsigned(ch), rx.size());
            x.resize(o.b % 13, Ch(ch));
            break;
        case RESERVE: {
            n = o.b % 24;
            op("reserve", "s%d,%zu", w, n);
            x.reserve(n);
            RC_ASSERT(x.capacity() >= n);
            break;
        }
        case CLEAR: op("clear", "s%d", w); x.clear(); break;
        case SWAP: op("swap", "s0,s1"); s.s[0]->swap(*s.s[1]); break;
        case SELF_SWAP: op("self_swap", "s%d", w); x.swap(x); break;
        case SUBSTR: {
            subStrict(o.b, o.d, rx.size(), i, n);
            op("substr", "s2<-s%d.substr(%zu,%zu)", w, i, n);
            Str& r = cx.substr(t, i, n);
            RC_ASSERT(&r == &t);
            break;
        }
        case SUBSTR_NPOS: i = o.b % rx.size(); op("substr_npos", "s2<-s%d.substr(%zu)", w, i); cx.substr(t, i); break;
        case COMPARE_STR:
            op("compare_str", "s%d,s%d", w, 1 - w);
            RC_ASSERT(sgn(cx.compare(y)) == sgn(rx.compare(ry)));
            break;
        case COMPARE_SUB: {
            sub(o.b, o.d, rx.size(), i, n);
            op("compare_sub", "s%d,%zu,%zu,s%d", w, i, n, 1 - w);
            RC_ASSERT(sgn(cx.compare(i, n, y)) == sgn(rx.compare(i, n, ry)));
            break;
        }
        case COMPARE_SUB_SUB: {
            size_t i2, n2;
            sub(o.b, o.d, rx.size(), i, n); sub(o.c, o.d >> 4, ry.size(), i2, n2);
            op("compare_sub_sub", "s%d,%zu,%zu,s%d,%zu,%zu", w, i, n, 1 - w, i2, n2);
            RC_ASSERT(sgn(cx.compare(i, n, y, i2, n2)) == sgn(rx.compare(i, n, ry, i2, n2)));
            break;
        }
        case COMPARE_PTR: {
            // compare against a prefix of s itself or a local buffer, NUL terminated
            U other = (o.b & 1) ? rx.substr(0, o.d % (rx.size() + 1)) + buf.substr(0, o.c % (buf.size() + 1)) : buf;
            if (hasNul(other)) other = other.substr(0, other.find(char16_t(0)));
            op("compare_ptr", "s%d,%s", w, show(other).c_str());
            RC_ASSERT(sgn(cx.compare(P(other))) == sgn(rx.compare(other.c_str())));
            break;
        }
        case COMPARE_SUB_PTR_N: case COMPARE_SUB_PTR_DEFAULT: {
            sub(o.b, o.d, rx.size(), i, n);
            U other = (o.c & 1) ? rx.substr(i, n) : (o.c & 2) ? rx.substr(i, n) + buf : buf;
            if (hasNul(other)) other = other.substr(0, other.find(char16_t(0)));
            if (o.code == COMPARE_SUB_PTR_N) {
                size_t n2 = (o.d >> 4) % (other.size() + 1);
                op("compare_sub_ptr_n", "s%d,%zu,%zu,%s,%zu", w, i, n, show(other).c_str(), n2);
                RC_ASSERT(sgn(cx.compare(i, n, P(other), n2)) == sgn(rx.compare(i, n, other.c_str(), n2)));
            } else {
                op("compare_sub_ptr_default", "s%d,%zu,%zu,%s", w, i, n, show(other).c_str());
                RC_ASSERT(sgn(cx.compare(i, n, P(other))) == sgn(rx.compare(i, n, other.c_str())));
            }
            break;
        }
        case AT_SET: i = o.b % rx.size(); op("at_set", "s%d,at(%zu)=U+%04x", w, i, unsigned(ch)); x.at(i) = Ch(ch); break;
        case SET_INDEX: i = o.b % rx.size(); op("set_index", "s%d,[%zu]=U+%04x", w, i, unsigned(ch)); x[i] = Ch(ch); break;
        case AT_SIZE: case AT_OOR: {
            i = o.code == AT_SIZE ? rx.size() : rx.size() + 1 + o.b % 3;
            op(o.code == AT_SIZE ? "at_size" : "at_out_of_range", "s%d,at(%zu)", w, i);
            bool thrown = false;
            try { (void) cx.at(i); } catch (const std::out_of_range&) { thrown = true; }
            RC_ASSERT(thrown);     // std::basic_string::at(pos) throws for pos >= size()
            thrown = false;
            try { (void) x.at(i); } catch (const std::out_of_range&) { thrown = true; }
            RC_ASSERT(thrown);
            break;
        }
        case COPY_CTOR: {
            int mg = o.b & 1;
            std::unique_ptr<Str> fresh;
            if (rx.empty()) { op("copy_ctor", "s%d<-Str(s%d,mm%d)", 1 - w, w, mg + 1); fresh.reset(new Str(x, s.mm(mg))); }
            else if (o.d & 1) { i = o.c % rx.size(); op("copy_ctor", "s%d<-Str(s%d,mm%d,%zu,npos)", 1 - w, w, mg + 1, i); fresh.reset(new Str(x, s.mm(mg), i)); }
            else { subStrict(o.c, o.d >> 1, rx.size(), i, n); op("copy_ctor", "s%d<-Str(s%d,mm%d,%zu,%zu)", 1 - w, w, mg + 1, i, n); fresh.reset(new Str(x, s.mm(mg), i, n)); }
            delete s.s[1 - w]; s.s[1 - w] = fresh.release();
            break;
        }
        case PTR_CTOR: {
            int mg = o.b & 1;
            std::unique_ptr<Str> fresh;
            if (o.b & 2) { op("ptr_ctor", "s%d<-Str(%s,mm%d)", 1 - w, bs.c_str(), mg + 1); fresh.reset(new Str(P(buf), s.mm(mg))); }
            else { op("ptr_ctor", "s%d<-Str(%s,mm%d,%zu)", 1 - w, bs.c_str(), mg + 1, buf.size() / 2); fresh.reset(new Str(P(buf), s.mm(mg), buf.size() / 2)); }
            delete s.s[1 - w]; s.s[1 - w] = fresh.release();
            break;
        }
        case FILL_CTOR: {
            int mg = o.b & 1;
            op("fill_ctor", "s%d<-Str(%d,U+%04x,mm%d)", 1 - w, o.d % 6, unsigned(ch), mg + 1);
            std::unique_ptr<Str> fresh(new Str(size_t(o.d % 6), Ch(ch), s.mm(mg)));
            delete s.s[1 - w]; s.s[1 - w] = fresh.release();
            break;
        }
        case CLONE: {
            int mg = o.b & 1;
            op("clone", "s%d,mm%d", w, mg + 1);
            Str* c = x.clone(s.mm(mg));
            bool same = Str::equals(*c, x) && c->length() == rx.size() && &c->getMemoryManager() == (xercesc::MemoryManager*) &s.mm(mg);
            c->~Str();
            s.mm(mg).deallocate(c);
            RC_ASSERT(same);
            break;
        }
        case RESET: op("reset", "s%d,mm%d,%s", w, (o.b & 1) + 1, bs.c_str()); x.reset(s.mm(o.b & 1), P(buf)); break;
        case ALIAS_INSERT_SELF: op("alias_insert_self", "s%d,%zu,s%d (spare capacity %zu)", w, pos, w, cap0 - rx.size()); x.insert(pos, x); break;
        case ALIAS_APPEND_SELF: op("alias_append_self", "s%d,s%d (spare capacity %zu)", w, w, cap0 - rx.size()); x.append(x); break;
        case NOP: op("nop", ""); break;
        }
        if (o.code != SWAP && o.code != SELF_SWAP && o.code != RESET && !rx.empty() && s.s[w]->capacity() > cap0) { markGrowth(); ++G().opCount["~realloc_with_content"]; }
        compare(m1, s);
    }

    template <class Cmds>
    static void execute(const Config&, const Model& m0, const Cmds& cmds) {
        header("# XalanDOMString s0 on mm1, s1 on mm2, s2 (scratch) on mm1; alphabet a b c U+00e9 U+d800 U+ffff z");
        Sut s;
        s.s[0] = new Str(s.mm1);
        s.s[1] = new Str(s.mm2);
        s.s[2] = new Str(s.mm1);
        compare(m0, s);
        rc::state::runAll(cmds, m0, s);
        G().curOp = "destroy";
        for (int w = 0; w < 3; ++w) { delete s.s[w]; s.s[w] = nullptr; }
        checkDeferred();
        RC_ASSERT(s.mm1.outstanding() == 0u);
        RC_ASSERT(s.mm2.outstanding() == 0u);
        RC_ASSERT(s.mm1.foreign + s.mm2.foreign == 0u);
    }
};

int main() { return mainFor("XalanDOMString", [] { stateCase<StrT>(); }); }
