// C20 target: XalanVector<E> vs std::vector<int>; E = int (-DC20_ELEM_INT) or Counted (-DC20_ELEM_COUNTED)
#include "c20_common.hpp"
#include <xalanc/Include/XalanVector.hpp>
#include <stdexcept>

using namespace c20;

#if defined(C20_ELEM_COUNTED)
typedef Counted Elem;
static const char* const kTarget = "XalanVector_Counted";
static const bool kCounted = true;
#else
typedef int Elem;
static const char* const kTarget = "XalanVector_int";
static const bool kCounted = false;
#endif
typedef xalanc::XalanVector<Elem> Vec;

struct VecT {
    struct Config { int init[2]; };
    struct Model { std::vector<int> v[2]; };
    struct Sut {
        CountingMM mm1{"mm1"}, mm2{"mm2"};
        Vec* v[2] = {nullptr, nullptr};
        ~Sut() { delete v[0]; delete v[1]; }
        CountingMM& mm(int i) { return i ? mm2 : mm1; }
    };
    enum { PUSH_BACK, POP_BACK, INSERT_ONE, INSERT_COUNT, INSERT_RANGE, INSERT_RANGE_OTHER, ERASE_ONE, ERASE_RANGE,
           RESIZE, RESIZE_VAL, RESERVE, ASSIGN_RANGE, ASSIGN_OTHER, OP_ASSIGN, SELF_ASSIGN, SWAP, SELF_SWAP, FREE_SWAP,
           COPY, RANGE_CTOR, COUNT_CTOR, CLEAR, SET_INDEX, SET_AT, AT_OOR, SET_VIA_IT, PUSH_MANY,
           ALIAS_PUSH_BACK, ALIAS_INSERT, ALIAS_INSERT_COUNT, ALIAS_RESIZE, NOP, NOPS };
    static const char* name(int c) {
        static const char* n[] = {"push_back", "pop_back", "insert_one", "insert_count", "insert_range", "insert_range_other",
            "erase_one", "erase_range", "resize", "resize_val", "reserve", "assign_range", "assign_other", "op_assign",
            "self_assign", "swap", "self_swap", "free_swap", "copy", "range_ctor", "count_ctor", "clear", "set_index", "set_at",
            "at_out_of_range", "set_via_it", "push_many", "alias_push_back", "alias_insert", "alias_insert_count", "alias_resize", "nop"};
        return n[c];
    }
    static const char* pattern(int code) {
        switch (code) {
        case ALIAS_PUSH_BACK: return "vec_alias_push_back";
        case ALIAS_INSERT: return "vec_alias_insert";
        case ALIAS_INSERT_COUNT: return "vec_alias_insert_count";
        case ALIAS_RESIZE: return "vec_alias_resize";
        }
        return nullptr;
    }
    static Config genConfig() { Config c; c.init[0] = *range(0, 5); c.init[1] = *range(0, 5); return c; }
    static Model initialModel(const Config&) { return Model(); }
    static rc::Gen<Op> genOp(const Model&) {
        static const std::vector<int> w = {8, 4, 6, 5, 5, 3, 5, 4, 3, 3, 3, 2, 2, 2, 1, 1, 1, 1, 1, 1, 1, 1, 2, 2, 1, 2, 2,
                                           2, 3, 3, 2, 0};
        return rc::gen::map(genOpWeighted(w), [](Op o) {
            const char* p = pattern(o.code);
            if (p && !patternEnabled(p)) { countExcluded(p); o.code = NOP; }
            return o;
        });
    }
    static bool valid(const Model& m, const Op& o) {
        const auto& x = m.v[o.a & 1];
        const char* p = pattern(o.code);
        if (p && !patternEnabled(p)) return false;
        switch (o.code) {
        case POP_BACK: case ERASE_ONE: case SET_INDEX: case SET_AT: case SET_VIA_IT:
        case ALIAS_PUSH_BACK: case ALIAS_INSERT: case ALIAS_INSERT_COUNT: case ALIAS_RESIZE:
            return !x.empty();
        }
        return true;
    }
    static std::vector<int> localRange(const Op& o) {
        std::vector<int> r;
        for (int i = 0, n = o.d % 7; i < n; ++i) r.push_back((o.c + i) % 100);
        return r;
    }
    static void subrange(const Op& o, size_t size, size_t& i, size_t& j) {   // i <= j <= size
        i = o.c % (size + 1); j = i + o.d % (size - i + 1);
    }

    static void apply(Model& m, const Op& o) {
        int w = o.a & 1, v = o.c % 100;
        auto& x = m.v[w];
        auto& y = m.v[1 - w];
        size_t pos = o.b % (x.size() + 1);
        switch (o.code) {
        case PUSH_BACK: x.push_back(v); break;
        case PUSH_MANY: for (int i = 0, n = 1 + o.d % 9; i < n; ++i) x.push_back((v + i) % 100); break;
        case POP_BACK: x.pop_back(); break;
        case INSERT_ONE: x.insert(x.begin() + pos, v); break;
        case INSERT_COUNT: x.insert(x.begin() + pos, size_t(o.d % 6), v); break;
        case INSERT_RANGE: { auto r = localRange(o); x.insert(x.begin() + pos, r.begin(), r.end()); break; }
        case INSERT_RANGE_OTHER: { size_t i, j; subrange(o, y.size(), i, j); x.insert(x.begin() + pos, y.begin() + i, y.begin() + j); break; }
        case ERASE_ONE: x.erase(x.begin() + o.b % x.size()); break;
        case ERASE_RANGE: { size_t i, j; subrange(o, x.size(), i, j); x.erase(x.begin() + i, x.begin() + j); break; }
        case RESIZE: x.resize(o.b % 13); break;
        case RESIZE_VAL: x.resize(o.b % 13, v); break;
        case RESERVE: break;
        case ASSIGN_RANGE: { auto r = localRange(o); x.assign(r.begin(), r.end()); break; }
        case ASSIGN_OTHER: x = y; break;
        case OP_ASSIGN: y = x; break;
        case SELF_ASSIGN: case SELF_SWAP: case AT_OOR: case NOP: break;
        case SWAP: case FREE_SWAP: m.v[0].swap(m.v[1]); break;
        case COPY: y = x; break;
        case RANGE_CTOR: { size_t i, j; subrange(o, x.size(), i, j); y.assign(x.begin() + i, x.begin() + j); break; }
        case COUNT_CTOR: y.assign(size_t(o.d % 6), v); break;
        case CLEAR: x.clear(); break;
        case SET_INDEX: case SET_AT: case SET_VIA_IT: x[o.b % x.size()] = v; break;
        case ALIAS_PUSH_BACK: { int e = x[o.b % x.size()]; x.push_back(e); break; }
        case ALIAS_INSERT: { int e = x[o.d % x.size()]; x.insert(x.begin() + pos, e); break; }
        case ALIAS_INSERT_COUNT: { int e = x[o.d % x.size()]; x.insert(x.begin() + pos, size_t(1 + o.c % 4), e); break; }
        case ALIAS_RESIZE: { int e = x[o.d % x.size()]; x.resize(o.b % 13, e); break; }
        }
    }

    static void compare(const Model& m, Sut& s) {
        long total = 0;
        for (int w = 0; w < 2; ++w) {
            Vec& x = *s.v[w];
            const Vec& cx = x;
            const auto& ref = m.v[w];
            RC_ASSERT(x.size() == ref.size());
            RC_ASSERT(x.empty() == ref.empty());
            RC_ASSERT(x.capacity() >= x.size());
            RC_ASSERT(size_t(x.end() - x.begin()) == ref.size());
            size_t i = 0;
            for (Vec::const_iterator it = cx.begin(); it != cx.end(); ++it, ++i) RC_ASSERT(val(*it) == ref[i]);
            i = ref.size();
            for (Vec::reverse_iterator it = x.rbegin(); it != x.rend(); ++it) { --i; RC_ASSERT(val(*it) == ref[i]); }
            RC_ASSERT(i == 0u);
            for (i = 0; i < ref.size(); ++i) { RC_ASSERT(val(x[i]) == ref[i]); RC_ASSERT(val(cx.at(i)) == ref[i]); }
            if (!ref.empty()) {
                RC_ASSERT(val(x.front()) == ref.front()); RC_ASSERT(val(x.back()) == ref.back());
                RC_ASSERT(val(cx.front()) == ref.front()); RC_ASSERT(val(cx.back()) == ref.back());
            }
            total += (long) ref.size();
        }
        RC_ASSERT((*s.v[0] == *s.v[1]) == (m.v[0] == m.v[1]));
        RC_ASSERT((*s.v[0] != *s.v[1]) == (m.v[0] != m.v[1]));
        RC_ASSERT((*s.v[0] < *s.v[1]) == (m.v[0] < m.v[1]));
        RC_ASSERT((*s.v[0] >= *s.v[1]) == (m.v[0] >= m.v[1]));
        if (kCounted) RC_ASSERT(Counted::live() == total);
    }

    static std::vector<Elem> toElems(const std::vector<int>& r) { return std::vector<Elem>(r.begin(), r.end()); }

    static void run(const Model& m0, Sut& s, const Op& o) {
        int w = o.a & 1, v = o.c % 100;
        Vec& x = *s.v[w];
        Vec& y = *s.v[1 - w];
        const auto& ref = m0.v[w];
        const auto& refy = m0.v[1 - w];
        size_t pos = o.b % (ref.size() + 1);
        const Elem* data0 = x.begin(); size_t cap0 = x.capacity(); size_t sz0 = ref.size();
        if (const char* p = pattern(o.code)) noteOnly(p);
        Model m1 = m0;
        apply(m1, o);
        if (m1.v[w].size() < sz0 && o.code != SWAP && o.code != FREE_SWAP) markErase();
        switch (o.code) {
        case PUSH_BACK: op("push_back", "v%d,%d", w, v); x.push_back(Elem(v)); break;
        case PUSH_MANY: {
            int n = 1 + o.d % 9;
            op("push_many", "v%d,n=%d,from=%d", w, n, v);
            for (int i = 0; i < n; ++i) x.push_back(Elem((v + i) % 100));
            break;
        }
        case POP_BACK: op("pop_back", "v%d", w); x.pop_back(); break;
        case INSERT_ONE: {
            op("insert_one", "v%d,pos=%zu,%d", w, pos, v);
            Vec::iterator it = x.insert(x.begin() + pos, Elem(v));
            RC_ASSERT(size_t(it - x.begin()) == pos);
            RC_ASSERT(val(*it) == v);
            break;
        }
        case INSERT_COUNT: {
            size_t n = o.d % 6;
            op("insert_count", "v%d,pos=%zu,n=%zu,%d", w, pos, n, v);
            x.insert(x.begin() + pos, n, Elem(v));
            break;
        }
        case INSERT_RANGE: {
            std::vector<Elem> r = toElems(localRange(o));
            op("insert_range", "v%d,pos=%zu,n=%zu,from=%d", w, pos, r.size(), v);
            const Elem* f = r.empty() ? (const Elem*) nullptr : &r[0];
            x.insert(x.begin() + pos, f, f + r.size());
            break;
        }
        case INSERT_RANGE_OTHER: {
            size_t i, j; subrange(o, refy.size(), i, j);
            op("insert_range_other", "v%d,pos=%zu,v%d[%zu,%zu)", w, pos, 1 - w, i, j);
            const Vec& cy = y;
            x.insert(x.begin() + pos, cy.begin() + i, cy.begin() + j);
            break;
        }
        case ERASE_ONE: {
            size_t i = o.b % ref.size();
            op("erase_one", "v%d,pos=%zu", w, i);
            Vec::iterator it = x.erase(x.begin() + i);
            RC_ASSERT(size_t(it - x.begin()) == i);
            break;
        }
        case ERASE_RANGE: {
            size_t i, j; subrange(o, ref.size(), i, j);
            op("erase_range", "v%d,[%zu,%zu)", w, i, j);
            Vec::iterator it = x.erase(x.begin() + i, x.begin() + j);
            RC_ASSERT(size_t(it - x.begin()) == i);
            break;
        }
        case RESIZE: op("resize", "v%d,%d", w, o.b % 13); x.resize(o.b % 13); break;
        case RESIZE_VAL: op("resize_val", "v%d,%d,%d", w, o.b % 13, v); x.resize(o.b % 13, Elem(v)); break;
        case RESERVE: {
            size_t n = o.b % 21;
            op("reserve", "v%d,%zu", w, n);
            x.reserve(n);
            RC_ASSERT(x.capacity() >= n);
            RC_ASSERT(x.capacity() >= cap0);
            break;
        }
        case ASSIGN_RANGE: {
            std::vector<Elem> r = toElems(localRange(o));
            op("assign_range", "v%d,n=%zu,from=%d", w, r.size(), v);
            const Elem* f = r.empty() ? (const Elem*) nullptr : &r[0];
            x.assign(f, f + r.size());
            break;
        }
        case ASSIGN_OTHER: op("assign_other", "v%d.assign(v%d.begin(),v%d.end())", w, 1 - w, 1 - w); x.assign(y.begin(), y.end()); break;
        case OP_ASSIGN: op("op_assign", "v%d=v%d", 1 - w, w); y = x; break;
        case SELF_ASSIGN: op("self_assign", "v%d", w); x = x; break;
        case SWAP: op("swap", "v0,v1"); s.v[0]->swap(*s.v[1]); break;
        case FREE_SWAP: op("free_swap", "v0,v1"); xalanc::swap(*s.v[0], *s.v[1]); break;
        case SELF_SWAP: op("self_swap", "v%d", w); x.swap(x); break;
        case COPY: {
            int mgr = o.c & 1; size_t init = o.d % 6;
            op("copy", "v%d<-copy(v%d,mm%d,initialAllocation=%zu)", 1 - w, w, mgr + 1, init);
            std::unique_ptr<Vec> fresh(new Vec(x, s.mm(mgr), init));
            RC_ASSERT(fresh->capacity() >= init);
            delete s.v[1 - w]; s.v[1 - w] = fresh.release();
            break;
        }
        case RANGE_CTOR: {
            size_t i, j; subrange(o, ref.size(), i, j);
            int mgr = o.b & 1;
            op("range_ctor", "v%d<-Vec(v%d[%zu,%zu),mm%d)", 1 - w, w, i, j, mgr + 1);
            const Vec& cx = x;
            std::unique_ptr<Vec> fresh(new Vec(cx.begin() + i, cx.begin() + j, s.mm(mgr)));
            delete s.v[1 - w]; s.v[1 - w] = fresh.release();
            break;
        }
        case COUNT_CTOR: {
            size_t n = o.d % 6; int mgr = o.b & 1;
            op("count_ctor", "v%d<-Vec(%zu,%d,mm%d)", 1 - w, n, v, mgr + 1);
            std::unique_ptr<Vec> fresh(new Vec(n, Elem(v), s.mm(mgr)));
            delete s.v[1 - w]; s.v[1 - w] = fresh.release();
            break;
        }
        case CLEAR: op("clear", "v%d", w); x.clear(); RC_ASSERT(x.capacity() == cap0); break;
        case SET_INDEX: op("set_index", "v%d,[%zu]=%d", w, o.b % ref.size(), v); x[o.b % ref.size()] = Elem(v); break;
        case SET_AT: op("set_at", "v%d,at(%zu)=%d", w, o.b % ref.size(), v); x.at(o.b % ref.size()) = Elem(v); break;
        case SET_VIA_IT: op("set_via_it", "v%d,*(begin+%zu)=%d", w, o.b % ref.size(), v); *(x.begin() + o.b % ref.size()) = Elem(v); break;
        case AT_OOR: {
            size_t i = ref.size() + o.b % 3;
            op("at_out_of_range", "v%d,at(%zu)", w, i);
            bool thrown = false;
            try { (void) x.at(i); } catch (const std::out_of_range&) { thrown = true; }
            RC_ASSERT(thrown);
            const Vec& cx = x;
            thrown = false;
            try { (void) cx.at(i); } catch (const std::out_of_range&) { thrown = true; }
            RC_ASSERT(thrown);
            break;
        }
        case ALIAS_PUSH_BACK: { size_t i = o.b % ref.size(); op("alias_push_back", "v%d,v%d[%zu]", w, w, i); x.push_back(x[i]); break; }
        case ALIAS_INSERT: {
            size_t i = o.d % ref.size();
            op("alias_insert", "v%d,pos=%zu,v%d[%zu],spare=%zu", w, pos, w, i, cap0 - sz0);
            x.insert(x.begin() + pos, x[i]);
            break;
        }
        case ALIAS_INSERT_COUNT: {
            size_t i = o.d % ref.size(), n = 1 + o.c % 4;
            op("alias_insert_count", "v%d,pos=%zu,n=%zu,v%d[%zu],spare=%zu", w, pos, n, w, i, cap0 - sz0);
            x.insert(x.begin() + pos, n, x[i]);
            break;
        }
        case ALIAS_RESIZE: {
            size_t i = o.d % ref.size();
            op("alias_resize", "v%d,%d,v%d[%zu],cap=%zu", w, o.b % 13, w, i, cap0);
            x.resize(o.b % 13, x[i]);
            break;
        }
        case NOP: op("nop", ""); break;
        }
        {
            Vec& z = *s.v[w];
            bool structural = o.code == SWAP || o.code == FREE_SWAP || o.code == SELF_SWAP;
            if (!structural && sz0 > 0 && z.begin() != data0 && z.capacity() > cap0) { markGrowth(); ++G().opCount["~realloc_with_elements"]; }
        }
        compare(m1, s);
    }

    template <class Cmds>
    static void execute(const Config& c, const Model& m0, const Cmds& cmds) {
        header("# %s initialAllocation=%d,%d", kTarget, c.init[0], c.init[1]);
        Sut s;
        s.v[0] = new Vec(s.mm1, c.init[0]);
        s.v[1] = new Vec(s.mm2, c.init[1]);
        RC_ASSERT(s.v[0]->capacity() == size_t(c.init[0]));
        compare(m0, s);
        rc::state::runAll(cmds, m0, s);
        G().curOp = "destroy";
        delete s.v[0]; s.v[0] = nullptr;
        delete s.v[1]; s.v[1] = nullptr;
        checkDeferred();
        if (kCounted) RC_ASSERT(Counted::live() == 0);
        RC_ASSERT(s.mm1.outstanding() == 0u);
        RC_ASSERT(s.mm2.outstanding() == 0u);
        RC_ASSERT(s.mm1.foreign + s.mm2.foreign == 0u);
    }
};

int main() { return mainFor(kTarget, [] { stateCase<VecT>(); }); }
