#!/bin/bash
# Builds everything the checks need, offline, from /repo's working tree.
set -u
cd "$(dirname "$0")"
export ASAN_OPTIONS=detect_leaks=0
rc=0
for f in asan tsan fuzz; do
  [ -f driver/Makefile ] || continue
  bin/ensure-build $f || { echo "setup: build of flavor $f failed" >&2; rc=2; continue; }
done
make -s -C driver FLAVOR=asan -j16 all > build/asan/drv.log 2>&1 || { echo "setup: driver build failed" >&2; tail -20 build/asan/drv.log >&2; rc=2; }
[ -x bin/setup-extra ] && { bin/setup-extra || rc=2; }
exit $rc
