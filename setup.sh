#!/bin/bash
# Builds everything the checks need, offline, from /repo's working tree (each check also does this incrementally by itself).
set -u
cd "$(dirname "$0")"
export ASAN_OPTIONS=detect_leaks=0
rc=0
mkdir -p build
for f in asan ndebug tsan fuzz; do
  bin/ensure-build $f || { echo "setup: build of flavor $f failed" >&2; rc=2; continue; }
  [ $f = fuzz ] && continue
  make -s -C driver FLAVOR=$f -j16 all > build/$f/drv.log 2>&1 || { echo "setup: driver build failed ($f)" >&2; tail -20 build/$f/drv.log >&2; rc=2; }
done
# fault-injection sweep (C19), rapidcheck targets (C20), libFuzzer targets (C03)
make -s -C driver -f Makefile.xfault FLAVOR=asan -j16 > build/asan/xfault.log 2>&1 || { echo "setup: xfault build failed" >&2; tail -20 build/asan/xfault.log >&2; rc=2; }
mkdir -p build/asan/rc
make -s -C rc -j16 all > build/asan/rc/make.log 2>&1 || { echo "setup: rapidcheck targets failed" >&2; tail -20 build/asan/rc/make.log >&2; rc=2; }
if [ -f fuzz/Makefile ]; then
  make -s -C fuzz -j16 > build/fuzz/fz.log 2>&1 || { echo "setup: fuzz targets failed" >&2; tail -20 build/fuzz/fz.log >&2; rc=2; }
fi
# self-tests of the reference models (the oracles): worked examples of the Recommendations, derived by hand
for m in vf.test_ref_xpath vf.test_ref_xslt; do
  ( cd py && python3-vt -m $m > ../build/selftest.$m.log 2>&1 ) || { echo "setup: $m failed" >&2; tail -5 build/selftest.$m.log >&2; rc=2; }
done
exit $rc
